//! Frame encoders: produce byte strings with known content and valid parity.

use crate::bits::setbits;
use crate::cpr::Cpr;
use crate::crc;

/// Inverse of altitude::ac12 for Q=1 codes: altitude (ft, multiple of 25, -1000..=50175) -> 12-bit code.
pub fn ac12_q(alt_ft: i64) -> u32 {
    let n = ((alt_ft + 1000) / 25) as u32 & 0x7FF;
    ((n >> 4) << 5) | 0x10 | (n & 0xF)
}

pub fn long_frame(df: u8, ca: u8, addr: u32, me: &[u8; 7]) -> [u8; 14] {
    let mut m = [0u8; 14];
    setbits(&mut m, 1, 5, u64::from(df));
    setbits(&mut m, 6, 8, u64::from(ca));
    setbits(&mut m, 9, 32, u64::from(addr));
    m[4..11].copy_from_slice(me);
    crc::seal(&mut m, 112, 0);
    m
}

pub fn me_airborne_position(tc: u8, ss: u8, saf: u8, alt_code12: u32, t: u8, c: Cpr) -> [u8; 7] {
    let mut me = [0u8; 7];
    setbits(&mut me, 1, 5, u64::from(tc));
    setbits(&mut me, 6, 7, u64::from(ss));
    setbits(&mut me, 8, 8, u64::from(saf));
    setbits(&mut me, 9, 20, u64::from(alt_code12));
    setbits(&mut me, 21, 21, u64::from(t));
    setbits(&mut me, 22, 22, u64::from(c.odd));
    setbits(&mut me, 23, 39, u64::from(c.yz));
    setbits(&mut me, 40, 56, u64::from(c.xz));
    me
}

/// 6-bit code of a character of the Annex 10 set.
pub fn char_code(c: char) -> u8 {
    match c {
        'A'..='Z' => c as u8 - b'A' + 1,
        '0'..='9' => c as u8 - b'0' + 48,
        _ => 32,
    }
}

pub fn me_identification(tc: u8, ca: u8, chars: &[u8; 8]) -> [u8; 7] {
    let mut me = [0u8; 7];
    setbits(&mut me, 1, 5, u64::from(tc));
    setbits(&mut me, 6, 8, u64::from(ca));
    for (i, c) in chars.iter().enumerate() {
        setbits(&mut me, 9 + 6 * i, 14 + 6 * i, u64::from(*c));
    }
    me
}

pub fn callsign_chars(s: &str) -> [u8; 8] {
    let mut c = [32u8; 8];
    for (i, ch) in s.chars().take(8).enumerate() {
        c[i] = char_code(ch);
    }
    c
}

#[allow(clippy::too_many_arguments)]
pub fn me_velocity(st: u8, nacv5: u8, ew_dir: u8, ew: u16, ns_dir: u8, ns: u16, vr_src: u8, vr_sign: u8, vr: u16, gnss_sign: u8, diff: u8) -> [u8; 7] {
    let mut me = [0u8; 7];
    setbits(&mut me, 1, 5, 19);
    setbits(&mut me, 6, 8, u64::from(st));
    setbits(&mut me, 9, 13, u64::from(nacv5));
    setbits(&mut me, 14, 14, u64::from(ew_dir));
    setbits(&mut me, 15, 24, u64::from(ew));
    setbits(&mut me, 25, 25, u64::from(ns_dir));
    setbits(&mut me, 26, 35, u64::from(ns));
    setbits(&mut me, 36, 36, u64::from(vr_src));
    setbits(&mut me, 37, 37, u64::from(vr_sign));
    setbits(&mut me, 38, 46, u64::from(vr));
    setbits(&mut me, 49, 49, u64::from(gnss_sign));
    setbits(&mut me, 50, 56, u64::from(diff));
    me
}

pub fn me_status(subtype: u8, emergency: u8, id13: u32) -> [u8; 7] {
    let mut me = [0u8; 7];
    setbits(&mut me, 1, 5, 28);
    setbits(&mut me, 6, 8, u64::from(subtype));
    setbits(&mut me, 9, 11, u64::from(emergency));
    setbits(&mut me, 12, 24, u64::from(id13));
    me
}

/// Short frame of an address/parity format (DF0/4/5) sealed so the syndrome is `addr`.
pub fn short_ap(df: u8, body27: u32, addr: u32) -> [u8; 7] {
    let mut m = [0u8; 7];
    setbits(&mut m, 1, 5, u64::from(df));
    setbits(&mut m, 6, 32, u64::from(body27));
    crc::seal(&mut m, 56, addr);
    m
}

/// DF11 with interrogator code `ii` overlaid on the parity.
pub fn all_call(ca: u8, addr: u32, ii: u32) -> [u8; 7] {
    let mut m = [0u8; 7];
    setbits(&mut m, 1, 5, 11);
    setbits(&mut m, 6, 8, u64::from(ca));
    setbits(&mut m, 9, 32, u64::from(addr));
    crc::seal(&mut m, 56, ii);
    m
}

/// Long address/parity frame (DF16/20/21): header bits 6..=32 and 56 payload bits, AP = parity ^ addr.
pub fn long_ap(df: u8, body27: u32, payload: &[u8; 7], addr: u32) -> [u8; 14] {
    let mut m = [0u8; 14];
    setbits(&mut m, 1, 5, u64::from(df));
    setbits(&mut m, 6, 32, u64::from(body27));
    m[4..11].copy_from_slice(payload);
    crc::seal(&mut m, 112, addr);
    m
}
