//! Bit access in the numbering of Annex 10: bit 1 is the first (most
//! significant) bit of the first byte; ranges are inclusive.

/// Bits `first..=last` (1-based, MSB first) of `msg` as an unsigned integer.
/// Bits beyond the end of `msg` read as 0 (callers check lengths themselves).
pub fn getbits(msg: &[u8], first: usize, last: usize) -> u64 {
    debug_assert!(first >= 1 && last >= first && last - first < 64);
    let mut v: u64 = 0;
    for b in first..=last {
        let idx = (b - 1) / 8;
        let bit = if idx < msg.len() { (msg[idx] >> (7 - ((b - 1) % 8))) & 1 } else { 0 };
        v = (v << 1) | u64::from(bit);
    }
    v
}

/// Set bits `first..=last` of `msg` to the low bits of `val`.
pub fn setbits(msg: &mut [u8], first: usize, last: usize, val: u64) {
    let width = last - first + 1;
    for i in 0..width {
        let b = first + i;
        let idx = (b - 1) / 8;
        if idx >= msg.len() {
            continue;
        }
        let bit = ((val >> (width - 1 - i)) & 1) as u8;
        let sh = 7 - ((b - 1) % 8);
        msg[idx] = (msg[idx] & !(1 << sh)) | (bit << sh);
    }
}

pub fn flipbit(msg: &mut [u8], bit: usize) {
    let idx = (bit - 1) / 8;
    if idx < msg.len() {
        msg[idx] ^= 1 << (7 - ((bit - 1) % 8));
    }
}

/// ME / MB payload bit numbering: payload bit 1 is frame bit 33.
pub fn me(msg: &[u8], first: usize, last: usize) -> u64 {
    getbits(msg, 32 + first, 32 + last)
}

pub fn hex(msg: &[u8]) -> String {
    let mut s = String::with_capacity(msg.len() * 2);
    for b in msg {
        s.push_str(&format!("{:02x}", b));
    }
    s
}

pub fn unhex(s: &str) -> Option<Vec<u8>> {
    let s = s.trim();
    if s.len() % 2 != 0 {
        return None;
    }
    let mut v = Vec::with_capacity(s.len() / 2);
    let b = s.as_bytes();
    for i in (0..b.len()).step_by(2) {
        let h = (b[i] as char).to_digit(16)?;
        let l = (b[i + 1] as char).to_digit(16)?;
        v.push((h * 16 + l) as u8);
    }
    Some(v)
}

/// Format classes of Annex 10: number of bits of the frame for a DF code, or
/// None for the codes that are not assigned / not supported.
pub fn frame_bits(df: u8) -> Option<usize> {
    match df {
        0 | 4 | 5 | 11 => Some(56),
        16..=21 | 24..=31 => Some(112),
        _ => None,
    }
}
