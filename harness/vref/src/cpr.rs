//! Compact Position Reporting, airborne format (ICAO 9871 / DO-260B A.1.7).
//! Encoder and global decoder, written from the equations of the standard.

pub const NB: f64 = 131072.0; // 2^17
const NZ: f64 = 15.0;

pub fn dlat(i: u32) -> f64 {
    360.0 / (4.0 * NZ - f64::from(i))
}

fn modp(a: f64, b: f64) -> f64 {
    // MOD of the standard: a - b*floor(a/b), result in [0, b)
    let r = a - b * (a / b).floor();
    if r < 0.0 { r + b } else if r >= b { r - b } else { r }
}

/// Number of longitude zones by the closed formula (A.1.7.2 d), with the
/// explicit clauses NL(0)=59, NL(+-87)=2, NL(|lat|>87)=1.
/// Returns (nl, margin) where margin is the distance in "NL units" of the
/// unrounded value from the nearest integer (used to flag ambiguous inputs).
pub fn nl_with_margin(lat: f64) -> (u32, f64) {
    let a = lat.abs();
    if a == 0.0 {
        return (59, 1.0);
    }
    if a == 87.0 {
        return (2, 1.0);
    }
    if a > 87.0 {
        return (1, (a - 87.0).min(1.0));
    }
    let c = (std::f64::consts::PI / 180.0 * a).cos();
    let x = 1.0 - (1.0 - (std::f64::consts::PI / (2.0 * NZ)).cos()) / (c * c);
    let v = 2.0 * std::f64::consts::PI / x.acos();
    let f = v.floor();
    if f >= 59.0 {
        // the formula tends to 60 at the equator; NL is 59 from the equator to the first transition
        return (59, v - 59.0);
    }
    let margin = (v - f).min(f + 1.0 - v);
    (f as u32, margin)
}

pub fn nl(lat: f64) -> u32 {
    nl_with_margin(lat).0
}

/// Transition latitudes: smallest latitude at which NL drops to `n` (n=2..=59 → 58 values).
pub fn transition_lat(n: u32) -> f64 {
    // lat = acos( sqrt( (1-cos(pi/2NZ)) / (1-cos(2pi/n)) ) )
    let num = 1.0 - (std::f64::consts::PI / (2.0 * NZ)).cos();
    let den = 1.0 - (2.0 * std::f64::consts::PI / f64::from(n)).cos();
    (num / den).sqrt().acos().to_degrees()
}

#[derive(Debug, Clone, Copy, PartialEq, Eq)]
pub struct Cpr {
    pub odd: bool,
    pub yz: u32,
    pub xz: u32,
}

/// Airborne encoder (A.1.7.3).
pub fn encode(lat: f64, lon: f64, odd: bool) -> Cpr {
    let i = u32::from(odd);
    let dl = dlat(i);
    let yz = (NB * modp(lat, dl) / dl + 0.5).floor();
    // Rlat = Dlat * (YZ/2^17 + floor(lat/Dlat)); at a latitude that is (within rounding) a zone
    // boundary floor() and MOD() can disagree about the zone in floating point, so the zone index
    // is recovered from the rounded YZ instead: j = nearest integer to lat/Dlat - YZ/2^17.
    let j = (lat / dl - yz / NB).round();
    let rlat = dl * (yz / NB + j);
    let nli = nl(rlat).saturating_sub(i).max(1);
    let dlon = 360.0 / f64::from(nli);
    let xz = (NB * modp(lon, dlon) / dlon + 0.5).floor();
    Cpr { odd, yz: (yz as u64 % 131072) as u32, xz: (xz as u64 % 131072) as u32 }
}

#[derive(Debug, Clone, Copy, PartialEq)]
pub enum Decode {
    /// equal parity
    SameParity,
    /// recovered latitude outside [-90, 90]
    LatRange { lat_even: f64, lat_odd: f64 },
    /// NL(lat_even) != NL(lat_odd)
    NlMismatch { lat_even: f64, lat_odd: f64 },
    Pos { lat: f64, lon: f64, ambiguous: bool },
}

/// Globally unambiguous decode (A.1.7.7). `first` and `second` in order of
/// reception; the result is in the zone system of `second`.
pub fn decode_global(first: Cpr, second: Cpr) -> Decode {
    if first.odd == second.odd {
        return Decode::SameParity;
    }
    let (even, odd) = if first.odd { (second, first) } else { (first, second) };
    let yz0 = f64::from(even.yz) / NB;
    let yz1 = f64::from(odd.yz) / NB;
    let xz0 = f64::from(even.xz) / NB;
    let xz1 = f64::from(odd.xz) / NB;
    let j = (59.0 * yz0 - 60.0 * yz1 + 0.5).floor();
    let mut rlat0 = dlat(0) * (modp(j, 60.0) + yz0);
    let mut rlat1 = dlat(1) * (modp(j, 59.0) + yz1);
    if rlat0 >= 270.0 {
        rlat0 -= 360.0;
    }
    if rlat1 >= 270.0 {
        rlat1 -= 360.0;
    }
    if !(-90.0..=90.0).contains(&rlat0) || !(-90.0..=90.0).contains(&rlat1) {
        return Decode::LatRange { lat_even: rlat0, lat_odd: rlat1 };
    }
    let (nl0, m0) = nl_with_margin(rlat0);
    let (nl1, m1) = nl_with_margin(rlat1);
    let ambiguous = m0 < 1e-7 || m1 < 1e-7;
    if nl0 != nl1 {
        return if ambiguous {
            Decode::Pos { lat: f64::NAN, lon: f64::NAN, ambiguous: true }
        } else {
            Decode::NlMismatch { lat_even: rlat0, lat_odd: rlat1 }
        };
    }
    let i = u32::from(second.odd);
    let lat = if second.odd { rlat1 } else { rlat0 };
    let nlv = nl0;
    let ni = f64::from(nlv.saturating_sub(i).max(1));
    let m = (xz0 * f64::from(nlv.saturating_sub(1)) - xz1 * f64::from(nlv) + 0.5).floor();
    let xzi = if second.odd { xz1 } else { xz0 };
    let mut lon = (360.0 / ni) * (modp(m, ni) + xzi);
    if lon >= 180.0 {
        lon -= 360.0;
    }
    Decode::Pos { lat, lon, ambiguous }
}

/// Great-circle distance, textbook haversine, mean Earth radius 6371 km.
pub fn haversine_km(a: (f64, f64), b: (f64, f64)) -> f64 {
    let (la1, lo1) = (a.0.to_radians(), a.1.to_radians());
    let (la2, lo2) = (b.0.to_radians(), b.1.to_radians());
    let sdlat = ((la2 - la1) / 2.0).sin();
    let sdlon = ((lo2 - lo1) / 2.0).sin();
    let h = sdlat * sdlat + la1.cos() * la2.cos() * sdlon * sdlon;
    let h = h.clamp(0.0, 1.0);
    2.0 * 6371.0 * h.sqrt().atan2((1.0 - h).sqrt())
}

/// Destination point from (lat, lon) going `dist_km` along bearing (degrees).
pub fn destination(lat: f64, lon: f64, bearing_deg: f64, dist_km: f64) -> (f64, f64) {
    let d = dist_km / 6371.0;
    let br = bearing_deg.to_radians();
    let la1 = lat.to_radians();
    let lo1 = lon.to_radians();
    let la2 = (la1.sin() * d.cos() + la1.cos() * d.sin() * br.cos()).asin();
    let lo2 = lo1 + (br.sin() * d.sin() * la1.cos()).atan2(d.cos() - la1.sin() * la2.sin());
    let mut lon2 = lo2.to_degrees();
    while lon2 >= 180.0 { lon2 -= 360.0; }
    while lon2 < -180.0 { lon2 += 360.0; }
    (la2.to_degrees(), lon2)
}
