//! xoshiro256** with splitmix64 seeding; no external crate.

#[derive(Clone, Debug)]
pub struct Rng {
    s: [u64; 4],
}

fn splitmix(x: &mut u64) -> u64 {
    *x = x.wrapping_add(0x9E37_79B9_7F4A_7C15);
    let mut z = *x;
    z = (z ^ (z >> 30)).wrapping_mul(0xBF58_476D_1CE4_E5B9);
    z = (z ^ (z >> 27)).wrapping_mul(0x94D0_49BB_1331_11EB);
    z ^ (z >> 31)
}

impl Rng {
    pub fn new(seed: u64) -> Self {
        let mut x = seed;
        let s = [splitmix(&mut x), splitmix(&mut x), splitmix(&mut x), splitmix(&mut x)];
        Self { s }
    }
    /// Derived independent stream: seed, textual label, index.
    pub fn derive(seed: u64, label: &str, idx: u64) -> Self {
        let mut h: u64 = 0xcbf2_9ce4_8422_2325;
        for b in label.bytes() {
            h ^= u64::from(b);
            h = h.wrapping_mul(0x0000_0100_0000_01B3);
        }
        Self::new(seed ^ h.rotate_left(17) ^ idx.wrapping_mul(0xD6E8_FEB8_6659_FD93))
    }
    pub fn next(&mut self) -> u64 {
        let r = self.s[1].wrapping_mul(5).rotate_left(7).wrapping_mul(9);
        let t = self.s[1] << 17;
        self.s[2] ^= self.s[0];
        self.s[3] ^= self.s[1];
        self.s[1] ^= self.s[2];
        self.s[0] ^= self.s[3];
        self.s[2] ^= t;
        self.s[3] = self.s[3].rotate_left(45);
        r
    }
    pub fn below(&mut self, n: u64) -> u64 {
        if n == 0 { 0 } else { self.next() % n }
    }
    pub fn range(&mut self, lo: u64, hi_incl: u64) -> u64 {
        lo + self.below(hi_incl - lo + 1)
    }
    pub fn f64(&mut self) -> f64 {
        (self.next() >> 11) as f64 / (1u64 << 53) as f64
    }
    pub fn bool(&mut self) -> bool {
        self.next() & 1 == 1
    }
    pub fn chance(&mut self, p: f64) -> bool {
        self.f64() < p
    }
    pub fn fill(&mut self, buf: &mut [u8]) {
        for chunk in buf.chunks_mut(8) {
            let v = self.next().to_le_bytes();
            chunk.copy_from_slice(&v[..chunk.len()]);
        }
    }
    pub fn pick<'a, T>(&mut self, xs: &'a [T]) -> &'a T {
        &xs[self.below(xs.len() as u64) as usize]
    }
}
