//! Oracle self-validation: anchors the reference model to values that are
//! pinned independently of it (standard anchors, dump1090 annotations quoted in
//! /repo's test comments, internal consistency). A failure here means the
//! harness is broken (inconclusive), never that /repo violates a property.

use crate::altitude::{self, Gillham};
use crate::bits::unhex;
use crate::cpr::{self, Cpr, Decode};
use crate::crc;
use crate::rng::Rng;

pub fn run() -> Result<Vec<String>, String> {
    let mut notes = Vec::new();
    let g = Gillham::new();
    // --- Gillham structure
    if g.entries() != 1280 {
        return Err(format!("gillham table has {} entries", g.entries()));
    }
    // anchors: C4 only = -1200 ft; C2 only = -1000 ft ... via 13-bit codes (C1 A1 C2 A2 C4 A4 M B1 Q B2 D2 B4 D4)
    let code = |c1: u32, a1: u32, c2: u32, a2: u32, c4: u32, a4: u32, b1: u32, b2: u32, d2: u32, b4: u32, d4: u32| -> u32 {
        (c1 << 12) | (a1 << 11) | (c2 << 10) | (a2 << 9) | (c4 << 8) | (a4 << 7) | (b1 << 5) | (b2 << 3) | (d2 << 2) | (b4 << 1) | d4
    };
    let anchors: [(u32, i64); 5] = [
        (code(0, 0, 0, 0, 1, 0, 0, 0, 0, 0, 0), -1200),
        (code(0, 0, 1, 0, 0, 0, 0, 0, 0, 0, 0), -1000),
        (code(1, 0, 0, 0, 0, 0, 0, 0, 0, 0, 0), -800), // 100 band: 001,011,010,110,100 -> C1 only is the 5th = -800
        (code(1, 0, 0, 0, 0, 0, 0, 0, 0, 1, 0), -700), // next 500 band (B4), reflected: C=100 first
        (code(0, 0, 1, 0, 0, 0, 0, 1, 0, 1, 0), 0),    // B2 B4 + C2: gray 011 = index 2 -> band 2: -200..200, C=010 is middle = 0
    ];
    for (c, want) in anchors {
        let got = altitude::ac13_raw(&g, c);
        if got != Some(want) {
            return Err(format!("gillham anchor code {c:013b}: got {got:?}, want {want}"));
        }
    }
    // neighbours differ in exactly one pulse
    let mut by_alt: Vec<(i64, u32)> = Vec::new();
    for c in 0..8192u32 {
        if c & 0x0050 != 0 {
            continue; // M or Q set
        }
        if let Some(a) = altitude::ac13_raw(&g, c) {
            by_alt.push((a, c));
        }
    }
    by_alt.sort();
    if by_alt.len() != 1280 {
        return Err(format!("{} gillham codes decode, want 1280", by_alt.len()));
    }
    for w in by_alt.windows(2) {
        if w[1].0 - w[0].0 != 100 || (w[0].1 ^ w[1].1).count_ones() != 1 {
            return Err(format!("gillham neighbours {:?} {:?} not unit-distance", w[0], w[1]));
        }
    }
    if by_alt[0].0 != -1200 || by_alt[1279].0 != 126_700 {
        return Err("gillham range wrong".into());
    }
    notes.push("gillham: 1280 codes, unit distance, anchors ok".into());
    // Q=1 anchors: N=0 -> -1000; dump1090-annotated frames below cover typical values
    if altitude::ac13(&g, 0x0010) != None || altitude::ac13(&g, 0x0010 | 0x0020 | 0x0009) != None {
        // N = 16+9 = 25 -> -375 ft
        return Err("ac13 negative altitude must be none".into());
    }
    // N=41 -> 25 ft : N bits: 41 = 0b101001 -> bits: upper (N>>5)=1 at field bit 6.., (N>>4)&1 = 0, low 4 = 9
    let c41 = (1 << 7) | 0x10 | 9;
    if altitude::ac13(&g, c41) != Some(25) {
        return Err(format!("ac13 N=41 gives {:?}", altitude::ac13(&g, c41)));
    }
    // --- squawk anchors: 7700, 1200, 7777, 0000 round trip + a frame annotated by dump1090 in the test-suite
    for abcd in [0x7700u32, 0x1200, 0x7777, 0x0000, 0x7500, 0x7600, 0x1234, 0x4321] {
        if altitude::squawk(altitude::squawk_encode(abcd)) != abcd {
            return Err(format!("squawk round trip {abcd:04x}"));
        }
    }
    // C1 is the first transmitted bit: code 0b1_0000_0000_0000 -> C=1 => 0x0010
    if altitude::squawk(0x1000) != 0x0010 || altitude::squawk(0x0800) != 0x1000 || altitude::squawk(0x0001) != 0x0004 || altitude::squawk(0x0020) != 0x0100 {
        return Err("squawk bit order".into());
    }
    notes.push("squawk: interleave anchors ok".into());
    // --- CRC: frames captured by dump1090 with CRC: 000000 (quoted in /repo's test comments and README)
    for h in ["8da08f94ea1b785e8f3c088ab467", "8dacc040f8210002004ab8569c35", "8da2c1bd587ba2adb31799cb802b", "8D40621D58C382D690C8AC2863A7", "8da3d42599250129780484712c50"] {
        let m = unhex(h).unwrap();
        if crc::syndrome(&m, 112) != 0 || crc::syndrome_table(&m, 112) != 0 {
            return Err(format!("crc of captured squitter {h} not 0"));
        }
    }
    // DF11 captured with IID:1
    let m = unhex("5dab3d17d4ba29").unwrap();
    if crc::syndrome(&m, 56) != 1 {
        return Err("crc of DF11 capture (IID 1) wrong".into());
    }
    let mut r = Rng::new(12345);
    for _ in 0..2000 {
        let mut m = [0u8; 14];
        r.fill(&mut m);
        if crc::syndrome(&m, 112) != crc::syndrome_table(&m, 112) || crc::syndrome(&m[..7], 56) != crc::syndrome_table(&m[..7], 56) {
            return Err("bit-serial and table CRC disagree".into());
        }
        let want = (r.next() & 0xFF_FFFF) as u32;
        crc::seal(&mut m, 112, want);
        if crc::syndrome(&m, 112) != want {
            return Err("seal".into());
        }
    }
    notes.push("crc: captured frames, bit-serial == table on 4000 random frames".into());
    // --- CPR: pinned decodes (test-suite values / well-known example 52.2572, 3.91937)
    let even = Cpr { odd: false, yz: 93000, xz: 51372 };
    let odd = Cpr { odd: true, yz: 74158, xz: 50194 };
    match cpr::decode_global(odd, even) {
        Decode::Pos { lat, lon, .. } if (lat - 52.2572021484375).abs() < 1e-12 && (lon - 3.91937255859375).abs() < 1e-12 => {}
        o => return Err(format!("cpr pinned decode: {o:?}")),
    }
    match cpr::decode_global(Cpr { odd: false, yz: 108_011, xz: 110_088 }, Cpr { odd: true, yz: 75_050, xz: 36_777 }) {
        Decode::Pos { lat, lon, .. } if (lat - 88.91747426178496).abs() < 1e-9 && (lon - 101.01104736328125).abs() < 1e-9 => {}
        o => return Err(format!("cpr high-lat decode: {o:?}")),
    }
    match cpr::decode_global(Cpr { odd: false, yz: 3_487, xz: 4_958 }, Cpr { odd: true, yz: 16_540, xz: 81_316 }) {
        Decode::Pos { lat, lon, .. } if (lat - -35.84019547801907).abs() < 1e-9 && (lon - 150.2838524351729).abs() < 1e-9 => {}
        o => return Err(format!("cpr negative-m decode: {o:?}")),
    }
    // NL anchors from the standard's table
    for (lat, n) in [(0.0, 59), (10.0, 59), (10.5, 58), (29.9, 52), (30.0, 51), (44.2, 42), (59.95, 30), (60.0, 29), (86.9, 2), (87.0, 2), (87.01, 1), (90.0, 1), (-45.0, 42)] {
        if cpr::nl(lat) != n {
            return Err(format!("NL({lat}) = {} want {n}", cpr::nl(lat)));
        }
    }
    // published transition latitudes (1090-WP-9-14), spot values
    for (n, t) in [(59u32, 10.470_471_30f64), (30, 59.954_592_77), (3, 86.535_369_98), (29, 61.049_177_74), (4, 85.755_416_21), (2, 87.0)] {
        if (cpr::transition_lat(n) - t).abs() > 1e-7 {
            return Err(format!("NL transition {n}: {} vs table {t}", cpr::transition_lat(n)));
        }
    }
    // encode -> decode returns the truth within half a bin
    let mut worst = 0.0f64;
    for k in 0..100_000u64 {
        let lat = (r.f64() * 2.0 - 1.0).asin().to_degrees();
        let lon = r.f64() * 360.0 - 180.0;
        let e = cpr::encode(lat, lon, false);
        let o = cpr::encode(lat, lon, true);
        for (a, b) in [(e, o), (o, e)] {
            match cpr::decode_global(a, b) {
                Decode::Pos { lat: la, lon: lo, ambiguous } => {
                    if ambiguous {
                        continue;
                    }
                    let dlat = (la - lat).abs();
                    let mut dlon = (lo - lon).abs();
                    if dlon > 180.0 {
                        dlon = 360.0 - dlon;
                    }
                    let i = u32::from(b.odd);
                    let binlat = cpr::dlat(i) / cpr::NB;
                    let ni = cpr::nl(la).saturating_sub(i).max(1);
                    let binlon = 360.0 / f64::from(ni) / cpr::NB;
                    if dlat > binlat * 0.5 * 1.000001 || dlon > binlon * 0.5 * 1.000001 {
                        return Err(format!("cpr round trip #{k} truth ({lat},{lon}) decoded ({la},{lo})"));
                    }
                    worst = worst.max(dlat / binlat).max(dlon / binlon);
                }
                Decode::NlMismatch { .. } => {} // truth sits across a transition between the two roundings: legitimately undecodable
                o => return Err(format!("cpr round trip #{k} truth ({lat},{lon}): {o:?}")),
            }
        }
    }
    notes.push(format!("cpr: pinned decodes, NL anchors, 2e5 round trips (worst error {worst:.3} bin)"));
    // haversine anchors
    let d = cpr::haversine_km((0.0, 0.0), (0.0, 180.0));
    if (d - std::f64::consts::PI * 6371.0).abs() > 1e-6 {
        return Err(format!("haversine antipode {d}"));
    }
    let d = cpr::haversine_km((0.0, 0.0), (0.0, 90.0));
    if (d - std::f64::consts::PI * 6371.0 / 2.0).abs() > 1e-6 {
        return Err(format!("haversine quarter {d}"));
    }
    Ok(notes)
}
