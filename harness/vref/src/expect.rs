//! What a correct decoder reports for a given byte string: acceptance, format
//! variant, checksum, and the value of every interpreted field, addressed by
//! the field's path in the decoder's Debug output.
//!
//! Bit positions are those of Annex 10 vol IV (header), DO-260B / ICAO 9871
//! (ME payloads) and ICAO 9871 table A-2-16 (BDS 1,0), 1-based, MSB first.

use crate::altitude::{self, Gillham};
use crate::bits::{frame_bits, getbits, me};
use crate::crc;
use crate::fields as w;
use crate::velocity;

#[derive(Debug, Clone, PartialEq)]
pub enum Want {
    /// exact Debug text of the node
    Text(String),
    /// name of the node (variant selected), contents not constrained
    Name(String),
    /// f32 value within 2 ulp
    F32(f32),
    /// identification string for these eight 6-bit characters
    Ident([u8; 8]),
    /// Option<u16> altitude: None also accepts Some(0) (DESIGN §3)
    AltOpt(Option<u32>),
}

#[derive(Debug, Clone)]
pub struct Item {
    pub prop: &'static str,
    pub clause: &'static str,
    pub path: String,
    pub want: Want,
    /// frame bits (1-based, inclusive) that own this field, for the walking-bit check
    pub bits: (usize, usize),
}

#[derive(Debug, Clone, PartialEq)]
pub enum Verdict {
    Accept,
    /// DF code not assigned to a supported format
    RejectFormat,
    /// buffer shorter than the format's frame
    RejectShort,
    /// type 31 subtype 0/1 with reserved bits / version outside the v0-2 layout
    RejectOpStatus,
}

#[derive(Debug, Clone)]
pub struct Expectation {
    pub verdict: Verdict,
    pub df: u8,
    pub nbits: usize,
    /// classification used in signatures and coverage: e.g. "df17/ca5/tc11" or "df20/bds10"
    pub class: String,
    pub crc: u32,
    pub items: Vec<Item>,
}

fn icao_text(v: u64) -> String {
    format!("ICAO([{}, {}, {}])", (v >> 16) & 0xFF, (v >> 8) & 0xFF, v & 0xFF)
}

struct B<'a> {
    msg: &'a [u8],
    items: Vec<Item>,
}

impl<'a> B<'a> {
    fn text(&mut self, prop: &'static str, clause: &'static str, path: &str, bits: (usize, usize), val: String) {
        self.items.push(Item { prop, clause, path: path.to_string(), want: Want::Text(val), bits });
    }
    /// field printed as an unsigned decimal
    fn num(&mut self, prop: &'static str, clause: &'static str, path: &str, first: usize, last: usize) {
        let v = getbits(self.msg, first, last);
        self.text(prop, clause, path, (first, last), v.to_string());
    }
    fn flag(&mut self, prop: &'static str, clause: &'static str, path: &str, bit: usize) {
        let v = getbits(self.msg, bit, bit);
        self.text(prop, clause, path, (bit, bit), if v == 1 { "true".into() } else { "false".into() });
    }
    fn name(&mut self, prop: &'static str, clause: &'static str, path: &str, bits: (usize, usize), val: &str) {
        self.items.push(Item { prop, clause, path: path.to_string(), want: Want::Name(val.to_string()), bits });
    }
}

fn ident_chars(msg: &[u8], first_bit: usize) -> [u8; 8] {
    let mut c = [0u8; 8];
    for (i, ch) in c.iter_mut().enumerate() {
        *ch = getbits(msg, first_bit + 6 * i, first_bit + 6 * i + 5) as u8;
    }
    c
}

/// Does the operational status payload (type 31) satisfy the version 0-2 layout?
pub fn opstatus_ok(msg: &[u8]) -> bool {
    let subtype = me(msg, 6, 8);
    if subtype > 1 {
        return true;
    }
    let version_ok = me(msg, 41, 43) <= 2;
    let om_ok = me(msg, 25, 26) == 0;
    let cc_ok = if subtype == 0 { me(msg, 9, 10) == 0 && me(msg, 13, 14) == 0 } else { me(msg, 9, 10) == 0 };
    version_ok && om_ok && cc_ok
}

/// ME payload (56 bits at frame bit 33) under `base` = path of the ME node.
fn me_items(b: &mut B, g: &Gillham, base: &str) -> String {
    let msg = b.msg;
    let tc = me(msg, 1, 5);
    let o = 32usize; // frame bit offset of ME bit 0
    let var = w::me_variant(tc);
    b.name("C10", "me_dispatch", base, (33, 37), var);
    let p = |f: &str| format!("{base}.0.{f}");
    match tc {
        1..=4 => {
            b.text("C08", "ident_tc", &p("tc"), (33, 37), w::type_coding(tc).into());
            b.num("C08", "ident_ca", &p("ca"), o + 6, o + 8);
            b.items.push(Item { prop: "C08", clause: "ident_chars", path: p("cn"), want: Want::Ident(ident_chars(msg, o + 9)), bits: (o + 9, o + 56) });
            format!("tc{tc}")
        }
        5..=8 => {
            b.num("C10", "surface_mov", &p("mov"), o + 6, o + 12);
            b.text("C10", "surface_s", &p("s"), (o + 13, o + 13), w::ground_track_status(me(msg, 13, 13)).into());
            b.num("C10", "surface_trk", &p("trk"), o + 14, o + 20);
            b.flag("C10", "surface_t", &p("t"), o + 21);
            b.text("C10", "surface_f", &p("f"), (o + 22, o + 22), w::cpr_format(me(msg, 22, 22)).into());
            b.num("C10", "surface_lat", &p("lat_cpr"), o + 23, o + 39);
            b.num("C10", "surface_lon", &p("lon_cpr"), o + 40, o + 56);
            format!("tc{tc}")
        }
        9..=18 | 20..=22 => {
            b.num("C10", "airpos_tc", &p("tc"), o + 1, o + 5);
            b.text("C10", "airpos_ss", &p("ss"), (o + 6, o + 7), w::surveillance_status(me(msg, 6, 7)).into());
            b.num("C10", "airpos_saf", &p("saf_or_imf"), o + 8, o + 8);
            let code = me(msg, 9, 20) as u32;
            b.items.push(Item { prop: "C06", clause: "ac12", path: p("alt"), want: Want::AltOpt(altitude::ac12(g, code)), bits: (o + 9, o + 20) });
            b.flag("C10", "airpos_t", &p("t"), o + 21);
            b.text("C10", "airpos_f", &p("odd_flag"), (o + 22, o + 22), w::cpr_format(me(msg, 22, 22)).into());
            b.num("C10", "airpos_lat", &p("lat_cpr"), o + 23, o + 39);
            b.num("C10", "airpos_lon", &p("lon_cpr"), o + 40, o + 56);
            format!("tc{tc}")
        }
        19 => {
            let st = me(msg, 6, 8);
            b.num("C07", "vel_st", &p("st"), o + 6, o + 8);
            b.num("C07", "vel_nacv", &p("nac_v"), o + 9, o + 13);
            let sp = p("sub_type");
            match st {
                1 | 2 => {
                    b.name("C07", "vel_subtype", &sp, (o + 6, o + 8), "GroundSpeedDecoding");
                    b.text("C07", "vel_ew_sign", &format!("{sp}.0.ew_sign"), (o + 14, o + 14), w::sign(me(msg, 14, 14)).into());
                    b.num("C07", "vel_ew", &format!("{sp}.0.ew_vel"), o + 15, o + 24);
                    b.text("C07", "vel_ns_sign", &format!("{sp}.0.ns_sign"), (o + 25, o + 25), w::sign(me(msg, 25, 25)).into());
                    b.num("C07", "vel_ns", &format!("{sp}.0.ns_vel"), o + 26, o + 35);
                }
                3 | 4 => {
                    b.name("C07", "vel_subtype", &sp, (o + 6, o + 8), "AirspeedDecoding");
                    b.num("C07", "air_status_heading", &format!("{sp}.0.status_heading"), o + 14, o + 14);
                    b.num("C07", "air_mag_heading", &format!("{sp}.0.mag_heading"), o + 15, o + 24);
                    b.num("C07", "air_type", &format!("{sp}.0.airspeed_type"), o + 25, o + 25);
                    b.text("C07", "air_airspeed", &format!("{sp}.0.airspeed"), (o + 26, o + 35), velocity::airspeed(me(msg, 26, 35)).to_string());
                }
                0 => b.name("C07", "vel_subtype", &sp, (o + 6, o + 8), "Reserved0"),
                _ => b.name("C07", "vel_subtype", &sp, (o + 6, o + 8), "Reserved1"),
            }
            b.text("C07", "vel_vrate_src", &p("vrate_src"), (o + 36, o + 36), w::vrate_src(me(msg, 36, 36)).into());
            b.text("C07", "vel_vrate_sign", &p("vrate_sign"), (o + 37, o + 37), w::sign(me(msg, 37, 37)).into());
            b.num("C07", "vel_vrate", &p("vrate_value"), o + 38, o + 46);
            b.text("C07", "vel_gnss_sign", &p("gnss_sign"), (o + 49, o + 49), w::sign(me(msg, 49, 49)).into());
            b.text("C07", "vel_gnss_diff", &p("gnss_baro_diff"), (o + 50, o + 56), velocity::gnss_diff(me(msg, 50, 56)).to_string());
            format!("tc19/st{st}")
        }
        28 => {
            b.text("C09", "status_subtype", &p("sub_type"), (o + 6, o + 8), w::aircraft_status_type(me(msg, 6, 8)).into());
            b.text("C09", "status_emergency", &p("emergency_state"), (o + 9, o + 11), w::emergency_state(me(msg, 9, 11)).into());
            b.text("C09", "squawk_tc28", &p("squawk"), (o + 12, o + 24), altitude::squawk(me(msg, 12, 24) as u32).to_string());
            "tc28".into()
        }
        29 => {
            b.num("C10", "tss_subtype", &p("subtype"), o + 6, o + 7);
            b.flag("C10", "tss_alt_type", &p("is_fms"), o + 9);
            let n = me(msg, 10, 20);
            b.text("C10", "tss_altitude", &p("altitude"), (o + 10, o + 20), (if n >= 1 { (n - 1) * 32 } else { 0 }).to_string());
            let q = me(msg, 21, 29);
            let qnh = if q == 0 { 0.0f32 } else { 800.0 + ((q - 1) as f32) * 0.8 };
            b.items.push(Item { prop: "C10", clause: "tss_qnh", path: p("qnh"), want: Want::F32(qnh), bits: (o + 21, o + 29) });
            b.flag("C10", "tss_heading_valid", &p("is_heading"), o + 30);
            let h = me(msg, 31, 39);
            b.items.push(Item { prop: "C10", clause: "tss_heading", path: p("heading"), want: Want::F32(h as f32 * 180.0 / 256.0), bits: (o + 31, o + 39) });
            b.num("C10", "tss_nacp", &p("nacp"), o + 40, o + 43);
            b.num("C10", "tss_nicbaro", &p("nicbaro"), o + 44, o + 44);
            b.num("C10", "tss_sil", &p("sil"), o + 45, o + 46);
            b.flag("C10", "tss_mode_valid", &p("mode_validity"), o + 47);
            b.flag("C10", "tss_autopilot", &p("autopilot"), o + 48);
            b.flag("C10", "tss_vnav", &p("vnac"), o + 49);
            b.flag("C10", "tss_alt_hold", &p("alt_hold"), o + 50);
            b.flag("C10", "tss_imf", &p("imf"), o + 51);
            b.flag("C10", "tss_approach", &p("approach"), o + 52);
            b.flag("C10", "tss_tcas", &p("tcas"), o + 53);
            b.flag("C10", "tss_lnav", &p("lnav"), o + 54);
            "tc29".into()
        }
        31 => {
            let st = me(msg, 6, 8);
            let sp = format!("{base}.0");
            match st {
                0 => {
                    b.name("C10", "ops_dispatch", &sp, (o + 6, o + 8), "Airborne");
                    let q = |f: &str| format!("{sp}.0.{f}");
                    b.num("C10", "opsa_acas", &q("capability_class.acas"), o + 11, o + 11);
                    b.num("C10", "opsa_cdti", &q("capability_class.cdti"), o + 12, o + 12);
                    b.num("C10", "opsa_arv", &q("capability_class.arv"), o + 15, o + 15);
                    b.num("C10", "opsa_ts", &q("capability_class.ts"), o + 16, o + 16);
                    b.num("C10", "opsa_tc", &q("capability_class.tc"), o + 17, o + 18);
                    om_items(b, &q("operational_mode"));
                    b.text("C10", "opsa_version", &q("version_number"), (o + 41, o + 43), w::adsb_version(me(msg, 41, 43)).unwrap_or("?").into());
                    b.num("C10", "opsa_nic_a", &q("nic_supplement_a"), o + 44, o + 44);
                    b.num("C10", "opsa_nacp", &q("navigational_accuracy_category"), o + 45, o + 48);
                    b.num("C10", "opsa_gva", &q("geometric_vertical_accuracy"), o + 49, o + 50);
                    b.num("C10", "opsa_sil", &q("source_integrity_level"), o + 51, o + 52);
                    b.num("C10", "opsa_nicbaro", &q("barometric_altitude_integrity"), o + 53, o + 53);
                    b.num("C10", "opsa_hrd", &q("horizontal_reference_direction"), o + 54, o + 54);
                    b.num("C10", "opsa_sil_supp", &q("sil_supplement"), o + 55, o + 55);
                }
                1 => {
                    b.name("C10", "ops_dispatch", &sp, (o + 6, o + 8), "Surface");
                    let q = |f: &str| format!("{sp}.0.{f}");
                    b.num("C10", "opss_poa", &q("capability_class.poe"), o + 11, o + 11);
                    b.num("C10", "opss_es_in", &q("capability_class.es1090"), o + 12, o + 12);
                    b.num("C10", "opss_b2_low", &q("capability_class.b2_low"), o + 15, o + 15);
                    b.num("C10", "opss_uat_in", &q("capability_class.uat_in"), o + 16, o + 16);
                    b.num("C10", "opss_nacv", &q("capability_class.nac_v"), o + 17, o + 19);
                    b.num("C10", "opss_nic_c", &q("capability_class.nic_supplement_c"), o + 20, o + 20);
                    b.num("C10", "opss_lw", &q("lw_codes"), o + 21, o + 24);
                    om_items(b, &q("operational_mode"));
                    b.num("C10", "opss_antenna", &q("gps_antenna_offset"), o + 33, o + 40);
                    b.text("C10", "opss_version", &q("version_number"), (o + 41, o + 43), w::adsb_version(me(msg, 41, 43)).unwrap_or("?").into());
                    b.num("C10", "opss_nic_a", &q("nic_supplement_a"), o + 44, o + 44);
                    b.num("C10", "opss_nacp", &q("navigational_accuracy_category"), o + 45, o + 48);
                    b.num("C10", "opss_sil", &q("source_integrity_level"), o + 51, o + 52);
                    b.num("C10", "opss_trk_hdg", &q("barometric_altitude_integrity"), o + 53, o + 53);
                    b.num("C10", "opss_hrd", &q("horizontal_reference_direction"), o + 54, o + 54);
                    b.num("C10", "opss_sil_supp", &q("sil_supplement"), o + 55, o + 55);
                }
                _ => b.name("C10", "ops_dispatch", &sp, (o + 6, o + 8), "Reserved"),
            }
            format!("tc31/st{st}")
        }
        _ => format!("tc{tc}"),
    }
}

fn om_items(b: &mut B, base: &str) {
    let o = 32usize;
    b.flag("C10", "om_ra", &format!("{base}.tcas_ra_active"), o + 27);
    b.flag("C10", "om_ident", &format!("{base}.ident_switch_active"), o + 28);
    b.flag("C10", "om_atc", &format!("{base}.reserved_recv_atc_service"), o + 29);
    b.flag("C10", "om_saf", &format!("{base}.single_antenna_flag"), o + 30);
    b.num("C10", "om_sda", &format!("{base}.system_design_assurance"), o + 31, o + 32);
}

/// MB payload of DF20/21 under `base` = path of the BDS node.
fn mb_items(b: &mut B, base: &str) -> String {
    let msg = b.msg;
    let o = 32usize;
    let id = me(msg, 1, 8);
    match id {
        0x00 => {
            b.name("C10", "bds_dispatch", base, (33, 40), "Empty");
            "bds00".into()
        }
        0x10 => {
            b.name("C10", "bds_dispatch", base, (33, 40), "DataLinkCapability");
            let q = |f: &str| format!("{base}.0.{f}");
            b.flag("C10", "bds10_continuation", &q("continuation_flag"), o + 9);
            b.flag("C10", "bds10_overlay", &q("overlay_command_capability"), o + 15);
            b.flag("C10", "bds10_acas", &q("acas"), o + 16);
            b.num("C10", "bds10_subnet", &q("mode_s_subnetwork_version_number"), o + 17, o + 23);
            b.flag("C10", "bds10_enhanced", &q("transponder_enhanced_protocol_indicator"), o + 24);
            b.flag("C10", "bds10_services", &q("mode_s_specific_services_capability"), o + 25);
            b.num("C10", "bds10_uelm", &q("uplink_elm_average_throughput_capability"), o + 26, o + 28);
            b.num("C10", "bds10_delm", &q("downlink_elm"), o + 29, o + 32);
            b.flag("C10", "bds10_ident_cap", &q("aircraft_identification_capability"), o + 33);
            b.flag("C10", "bds10_squitter", &q("squitter_capability_subfield"), o + 34);
            b.flag("C10", "bds10_si", &q("surveillance_identifier_code"), o + 35);
            b.flag("C10", "bds10_gicb", &q("common_usage_gicb_capability_report"), o + 36);
            b.num("C10", "bds10_acas_bits", &q("reserved_acas"), o + 37, o + 40);
            b.num("C10", "bds10_bit_array", &q("bit_array"), o + 41, o + 56);
            "bds10".into()
        }
        0x20 => {
            b.name("C10", "bds_dispatch", base, (33, 40), "AircraftIdentification");
            b.items.push(Item { prop: "C08", clause: "ident_chars_bds20", path: format!("{base}.0"), want: Want::Ident(ident_chars(msg, o + 9)), bits: (o + 9, o + 56) });
            "bds20".into()
        }
        _ => {
            b.name("C10", "bds_dispatch", base, (33, 40), "Unknown");
            "bdsxx".into()
        }
    }
}

fn surveillance_header(b: &mut B, fs_field: &str) {
    let msg = b.msg;
    b.text("C04", "hdr_fs", &format!("df.{fs_field}"), (6, 8), w::flight_status(getbits(msg, 6, 8)).into());
    b.text("C04", "hdr_dr", "df.dr", (9, 13), w::downlink_request(getbits(msg, 9, 13)));
    b.num("C04", "hdr_iis", "df.um.iis", 14, 17);
    b.text("C04", "hdr_ids", "df.um.ids", (18, 19), w::um_type(getbits(msg, 18, 19)).into());
}

/// Expectation for an arbitrary byte string.
pub fn expect(g: &Gillham, msg: &[u8]) -> Expectation {
    if msg.is_empty() {
        return Expectation { verdict: Verdict::RejectShort, df: 0, nbits: 0, class: "empty".into(), crc: 0, items: vec![] };
    }
    let df = getbits(msg, 1, 5) as u8;
    let Some(nbits) = frame_bits(df) else {
        return Expectation { verdict: Verdict::RejectFormat, df, nbits: 0, class: format!("df{df}/unassigned"), crc: 0, items: vec![] };
    };
    if msg.len() * 8 < nbits {
        return Expectation { verdict: Verdict::RejectShort, df, nbits, class: format!("df{df}/short"), crc: 0, items: vec![] };
    }
    let crc_v = crc::syndrome(msg, nbits);
    let mut b = B { msg, items: vec![] };
    let dfname = w::df_variant(u64::from(df)).unwrap();
    b.name("C02", "df_variant", "df", (1, 5), dfname);
    b.text("C03", "crc", "crc", (1, nbits), crc_v.to_string());
    let mut verdict = Verdict::Accept;
    let class;
    match df {
        0 => {
            b.num("C04", "hdr_vs", "df.vs", 6, 6);
            b.num("C04", "hdr_cc", "df.cc", 7, 7);
            b.num("C04", "hdr_sl", "df.sl", 9, 11);
            b.num("C04", "hdr_ri", "df.ri", 14, 17);
            b.text("C06", "ac13", "df.altitude", (20, 32), format!("AC13Field({})", altitude::ac13(g, getbits(msg, 20, 32) as u32).unwrap_or(0)));
            b.text("C04", "trailing_ap", "df.parity", (33, 56), icao_text(getbits(msg, 33, 56)));
            class = "df0".to_string();
        }
        4 => {
            surveillance_header(&mut b, "fs");
            b.text("C06", "ac13", "df.ac", (20, 32), format!("AC13Field({})", altitude::ac13(g, getbits(msg, 20, 32) as u32).unwrap_or(0)));
            b.text("C04", "trailing_ap", "df.ap", (33, 56), icao_text(getbits(msg, 33, 56)));
            class = "df4".to_string();
        }
        5 => {
            surveillance_header(&mut b, "fs");
            b.text("C09", "squawk_df5", "df.id", (20, 32), format!("IdentityCode({})", altitude::squawk(getbits(msg, 20, 32) as u32)));
            b.text("C04", "trailing_ap", "df.ap", (33, 56), icao_text(getbits(msg, 33, 56)));
            class = "df5".to_string();
        }
        11 => {
            let ca = getbits(msg, 6, 8);
            b.text("C04", "hdr_ca", "df.capability", (6, 8), w::capability(ca));
            b.text("C04", "announced_aa", "df.icao", (9, 32), icao_text(getbits(msg, 9, 32)));
            b.text("C04", "trailing_pi", "df.p_icao", (33, 56), icao_text(getbits(msg, 33, 56)));
            class = format!("df11/ca{}", ca_class(ca));
        }
        16 => {
            b.num("C04", "hdr_vs", "df.vs", 6, 6);
            b.num("C04", "hdr_sl", "df.sl", 9, 11);
            b.num("C04", "hdr_ri", "df.ri", 14, 17);
            b.text("C06", "ac13", "df.altitude", (20, 32), format!("AC13Field({})", altitude::ac13(g, getbits(msg, 20, 32) as u32).unwrap_or(0)));
            let mv: Vec<String> = (0..7).map(|i| msg[4 + i].to_string()).collect();
            b.text("C04", "hdr_mv", "df.mv", (33, 88), format!("[{}]", mv.join(", ")));
            b.text("C04", "trailing_ap", "df.parity", (89, 112), icao_text(getbits(msg, 89, 112)));
            class = "df16".to_string();
        }
        17 => {
            let ca = getbits(msg, 6, 8);
            b.text("C04", "hdr_ca", "df.0.capability", (6, 8), w::capability(ca));
            b.text("C04", "announced_aa", "df.0.icao", (9, 32), icao_text(getbits(msg, 9, 32)));
            let mc = me_items(&mut b, g, "df.0.me");
            b.text("C04", "trailing_pi", "df.0.pi", (89, 112), icao_text(getbits(msg, 89, 112)));
            class = format!("df17/ca{}/{}", ca_class(ca), mc);
            if getbits(msg, 33, 37) == 31 && !opstatus_ok(msg) {
                verdict = Verdict::RejectOpStatus;
            }
        }
        18 => {
            let cf = getbits(msg, 6, 8);
            b.text("C04", "hdr_cf", "df.cf.t", (6, 8), w::cf_type(cf).into());
            b.text("C04", "announced_aa", "df.cf.aa", (9, 32), icao_text(getbits(msg, 9, 32)));
            let mc = me_items(&mut b, g, "df.cf.me");
            b.text("C04", "trailing_pi", "df.pi", (89, 112), icao_text(getbits(msg, 89, 112)));
            class = format!("df18/cf{}/{}", cf, mc);
            if getbits(msg, 33, 37) == 31 && !opstatus_ok(msg) {
                verdict = Verdict::RejectOpStatus;
            }
        }
        19 => {
            b.num("C04", "hdr_af", "df.af", 6, 8);
            class = "df19".to_string();
        }
        20 => {
            surveillance_header(&mut b, "flight_status");
            b.text("C06", "ac13", "df.alt", (20, 32), format!("AC13Field({})", altitude::ac13(g, getbits(msg, 20, 32) as u32).unwrap_or(0)));
            let mc = mb_items(&mut b, "df.bds");
            class = format!("df20/{}", mc);
        }
        21 => {
            surveillance_header(&mut b, "fs");
            b.text("C09", "squawk_df21", "df.id", (20, 32), altitude::squawk(getbits(msg, 20, 32) as u32).to_string());
            let mc = mb_items(&mut b, "df.bds");
            b.text("C04", "trailing_ap", "df.parity", (89, 112), icao_text(getbits(msg, 89, 112)));
            class = format!("df21/{}", mc);
        }
        24..=31 => {
            let ca = getbits(msg, 6, 8);
            b.num("C04", "hdr_df", "df.df", 1, 5);
            b.text("C04", "hdr_ca", "df.capability", (6, 8), w::capability(ca));
            b.text("C04", "announced_aa", "df.icao", (9, 32), icao_text(getbits(msg, 9, 32)));
            b.text("C04", "trailing_ap", "df.parity", (89, 112), icao_text(getbits(msg, 89, 112)));
            class = format!("df24-31/ca{}", ca_class(ca));
        }
        _ => unreachable!(),
    }
    Expectation { verdict, df, nbits, class, crc: crc_v, items: b.items }
}

pub fn ca_class(ca: u64) -> &'static str {
    match ca {
        0 => "0",
        1..=3 => "1-3",
        _ => "4-7",
    }
}
