//! Independent reference model of the Mode S / ADS-B semantics that the
//! properties in /verif/properties.jsonl talk about.
//!
//! Nothing in this crate calls code from /repo and nothing here uses deku.
//! Everything is written from the standards (ICAO Annex 10 vol. IV, DO-260B,
//! ICAO 9871) with the standard's own 1-based, MSB-first bit numbering.

pub mod bits;
pub mod dbg;
pub mod crc;
pub mod altitude;
pub mod fields;
pub mod cpr;
pub mod velocity;
pub mod expect;
pub mod render;
pub mod tracker;
pub mod encode;
pub mod rng;
pub mod selfcheck;
