//! Airborne velocity (type 19) arithmetic of DO-260B 2.2.3.2.6.

#[derive(Debug, Clone, Copy, PartialEq)]
pub struct Derived {
    pub track_deg: f64,
    pub ground_speed_kt: f64,
    pub vrate_fpm: i32,
    pub east_kt: i64,
    pub north_kt: i64,
}

/// Derived velocity of a ground-speed subtype, or None when there is none to
/// report: subtype not 1/2, or any of the two velocity fields or the vertical
/// rate field is 0 ("no information").
pub fn derive(subtype: u64, ew_dir: u64, ew_raw: u64, ns_dir: u64, ns_raw: u64, vr_sign: u64, vr_raw: u64) -> Option<Derived> {
    if subtype != 1 && subtype != 2 {
        return None;
    }
    if ew_raw == 0 || ns_raw == 0 || vr_raw == 0 {
        return None;
    }
    let mult: i64 = if subtype == 2 { 4 } else { 1 };
    // direction bit 1 = west / south
    let east = (ew_raw as i64 - 1) * mult * if ew_dir == 1 { -1 } else { 1 };
    let north = (ns_raw as i64 - 1) * mult * if ns_dir == 1 { -1 } else { 1 };
    let gs = ((east * east + north * north) as f64).sqrt();
    let mut trk = (east as f64).atan2(north as f64).to_degrees();
    if trk < 0.0 {
        trk += 360.0;
    }
    let vr = (vr_raw as i32 - 1) * 64 * if vr_sign == 1 { -1 } else { 1 };
    Some(Derived { track_deg: trk, ground_speed_kt: gs, vrate_fpm: vr, east_kt: east, north_kt: north })
}

/// GNSS - baro difference magnitude in feet for the 7-bit raw code.
pub fn gnss_diff(raw: u64) -> u64 {
    if raw == 0 { 0 } else { (raw - 1) * 25 }
}

/// Airspeed of the airspeed subtypes: raw-1 kt (0 when raw is 0).
pub fn airspeed(raw: u64) -> u64 {
    raw.saturating_sub(1)
}
