//! Sequential model of the aircraft tracker as the properties C12-C15 state
//! it, and the oracle that compares an observed snapshot of the real tracker
//! with the model after every step of a history.

use crate::cpr::{self, Cpr, Decode};
use std::collections::BTreeMap;

pub const JUMP_KM: f64 = 100.0;
/// relative band around a threshold inside which a decision is not judged
pub const BAND: f64 = 1e-9;

#[derive(Debug, Clone, PartialEq)]
pub enum Payload {
    Ident(String),
    /// derived velocity (track deg, ground speed kt, vertical rate ft/min) or None if the report carries none
    Velocity(Option<(f64, f64, i32)>),
    Position { cpr: Cpr, alt: Option<u32> },
    Other,
}

#[derive(Debug, Clone, PartialEq)]
pub enum Event {
    /// DF17 / DF18 frame from `addr` (the announced address)
    Es { addr: u32, payload: Payload },
    /// any other downlink format
    NonEs,
}

/// What the monitor reads off the real tracker for one aircraft.
#[derive(Debug, Clone, PartialEq, Default)]
pub struct ObsRec {
    pub num_messages: u64,
    pub callsign: Option<String>,
    pub heading: Option<f64>,
    pub speed: Option<f64>,
    pub vert_speed: Option<i64>,
    pub even: Option<(u32, u32, Option<u32>)>, // (yz, xz, alt)
    pub odd: Option<(u32, u32, Option<u32>)>,
    pub position: Option<(f64, f64)>,
    pub distance: Option<f64>,
    /// positioned entries of the track, in order
    pub track: Vec<(f64, f64)>,
    pub details: Option<ObsDetails>,
    pub in_all_position: Option<(f64, f64)>,
    /// whether the textual view (Display of the tracker) has a line for this aircraft
    pub in_display: bool,
    /// set when the textual view has a line for this aircraft whose content differs from the
    /// details the API returns for it (the line as printed)
    pub display_mismatch: Option<String>,
    /// track entries (positioned ones, in order) as returned inside the details
    pub details_track: Option<Vec<(f64, f64)>>,
}

#[derive(Debug, Clone, PartialEq)]
pub struct ObsDetails {
    pub position: (f64, f64),
    pub altitude: u32,
    pub distance: f64,
    pub heading: Option<f64>,
}

pub type Snapshot = BTreeMap<u32, ObsRec>;

#[derive(Debug, Clone)]
struct TrackEntry {
    pos: (f64, f64),
    optional: bool,
}

#[derive(Debug, Clone, Default)]
struct Rec {
    num_messages: u64,
    callsign: Option<String>,
    vel: Option<(f64, f64, i32)>,
    even: Option<(Cpr, Option<u32>)>,
    odd: Option<(Cpr, Option<u32>)>,
    /// order of arrival of the two stored reports: true if the odd one is the more recent
    odd_latest: bool,
    position: Option<(f64, f64)>,
    distance: Option<f64>,
    track: Vec<TrackEntry>,
    last_heard_ns: i128,
    /// receiver position passed with the report that led to the current publication
    pub_receiver: Option<(f64, f64)>,
}

#[derive(Debug, Clone)]
pub struct Disagreement {
    pub prop: &'static str,
    pub clause: &'static str,
    pub detail: String,
}

pub struct Model {
    pub receiver: (f64, f64),
    pub max_range: f64,
    recs: BTreeMap<u32, Rec>,
    /// addresses that were removed by expiry at least once (C15: heard again = newly added, fresh record)
    expired: std::collections::BTreeSet<u32>,
    pub now_ns: i128,
    pub stats: ModelStats,
    /// set while the receiver sits bit-exactly on the position published for this address
    pub receiver_on: Option<u32>,
}

#[derive(Debug, Default, Clone)]
pub struct ModelStats {
    pub published: u64,
    pub cleared_range: u64,
    pub cleared_jump: u64,
    pub undecodable_pairs: u64,
    pub ambiguous: u64,
    pub pruned: u64,
    pub readded: u64,
    pub duplicates: u64,
}

fn close(a: f64, b: f64, rel: f64) -> bool {
    if a == b {
        return true;
    }
    if !a.is_finite() || !b.is_finite() {
        return false; // nothing is close to an infinite range
    }
    let d = (a - b).abs();
    d <= rel * a.abs().max(b.abs()).max(1e-300) || d <= 1e-12
}

fn pos_close(a: (f64, f64), b: (f64, f64)) -> bool {
    (a.0 - b.0).abs() <= 1e-9 && ((a.1 - b.1).abs() <= 1e-9 || ((a.1 - b.1).abs() - 360.0).abs() <= 1e-9)
}

impl Model {
    pub fn new(receiver: (f64, f64), max_range: f64) -> Self {
        Self { receiver, max_range, recs: BTreeMap::new(), expired: Default::default(), now_ns: 0, stats: ModelStats::default(), receiver_on: None }
    }

    pub fn tracked(&self) -> Vec<u32> {
        self.recs.keys().copied().collect()
    }

    pub fn advance(&mut self, dt_ns: i128) {
        self.now_ns += dt_ns;
    }

    /// Apply `ev`, compare with what the real tracker did (`added`: whether it
    /// reported the aircraft as newly added; `obs`: snapshot after the call).
    pub fn step(&mut self, ev: &Event, added: bool, obs: &Snapshot) -> Vec<Disagreement> {
        let mut out = self.step_inner(ev, added, obs);
        // C15: an expired aircraft that is heard again is reported as newly added and starts from
        // an empty record — disagreements about such a frame are expiry disagreements too
        if let Event::Es { addr, .. } = ev {
            if self.expired.contains(addr) && self.recs.get(addr).map_or(false, |r| r.num_messages == 1) {
                let tag = format!("addr {addr:06x}");
                let extra: Vec<Disagreement> = out
                    .iter()
                    .filter(|d| d.prop != "C15" && d.detail.contains(&tag))
                    .map(|d| Disagreement {
                        prop: "C15",
                        clause: if d.clause == "added_iff_new" { "readded_not_reported_as_added" } else { "readded_record_not_fresh" },
                        detail: format!("first frame after expiry: {} ({}|{})", d.detail, d.prop, d.clause),
                    })
                    .collect();
                out.extend(extra);
                self.stats.readded += 1;
            }
        }
        out
    }

    fn step_inner(&mut self, ev: &Event, added: bool, obs: &Snapshot) -> Vec<Disagreement> {
        let mut out = Vec::new();
        match ev {
            Event::NonEs => {
                if added {
                    out.push(Disagreement { prop: "C12", clause: "non_es_added", detail: "non extended-squitter frame reported as added".into() });
                }
            }
            Event::Es { addr, payload } => {
                let was_tracked = self.recs.contains_key(addr);
                if added == was_tracked {
                    out.push(Disagreement {
                        prop: "C12",
                        clause: "added_iff_new",
                        detail: format!("addr {addr:06x}: added={added} but tracked-before={was_tracked}"),
                    });
                }
                let now = self.now_ns;
                let receiver = self.receiver;
                let max_range = self.max_range;
                let rec = self.recs.entry(*addr).or_default();
                rec.num_messages += 1;
                rec.last_heard_ns = now;
                match payload {
                    Payload::Ident(cs) => rec.callsign = Some(cs.clone()),
                    Payload::Velocity(Some(v)) => rec.vel = Some(*v),
                    Payload::Velocity(None) | Payload::Other => {}
                    Payload::Position { cpr, alt } => {
                        let o = obs.get(addr);
                        let on = self.receiver_on == Some(*addr);
                        Self::position_step(rec, *cpr, *alt, receiver, max_range, o, *addr, &mut out, &mut self.stats, on);
                    }
                }
            }
        }
        self.compare(obs, &mut out);
        out
    }

    /// Like `step` for non-position events but without the record-by-record comparison
    /// (used on very large tracked sets, where a full comparison follows every N steps).
    pub fn step_without_comparison(&mut self, ev: &Event, added: bool, _obs: &Snapshot) -> Vec<Disagreement> {
        let mut out = Vec::new();
        match ev {
            Event::NonEs => {
                if added {
                    out.push(Disagreement { prop: "C12", clause: "non_es_added", detail: "non extended-squitter frame reported as added".into() });
                }
            }
            Event::Es { addr, payload } => {
                let was_tracked = self.recs.contains_key(addr);
                if added == was_tracked {
                    out.push(Disagreement { prop: "C12", clause: "added_iff_new", detail: format!("addr {addr:06x}: added={added} but tracked-before={was_tracked}") });
                }
                let now = self.now_ns;
                let rec = self.recs.entry(*addr).or_default();
                rec.num_messages += 1;
                rec.last_heard_ns = now;
                match payload {
                    Payload::Ident(cs) => rec.callsign = Some(cs.clone()),
                    Payload::Velocity(Some(v)) => rec.vel = Some(*v),
                    _ => {}
                }
            }
        }
        out
    }

    #[allow(clippy::too_many_arguments)]
    fn position_step(
        rec: &mut Rec,
        c: Cpr,
        alt: Option<u32>,
        receiver: (f64, f64),
        max_range: f64,
        obs: Option<&ObsRec>,
        addr: u32,
        out: &mut Vec<Disagreement>,
        stats: &mut ModelStats,
        receiver_on_this: bool,
    ) {
        let duplicate = if c.odd { rec.odd == Some((c, alt)) } else { rec.even == Some((c, alt)) };
        if c.odd {
            rec.odd = Some((c, alt));
            rec.odd_latest = true;
        } else {
            rec.even = Some((c, alt));
            rec.odd_latest = false;
        }
        let (Some((e, _)), Some((o, _))) = (rec.even, rec.odd) else {
            return; // nothing to pair yet; stored report only
        };
        // Candidates: the pairing in either order of recency (DESIGN §3).
        // When the odd report is the more recent one the pairing in that order is the only right
        // one (and it is what an implementation that always pairs (even, odd) computes).
        let cands: Vec<Decode> = if rec.odd_latest { vec![cpr::decode_global(e, o)] } else { vec![cpr::decode_global(e, o), cpr::decode_global(o, e)] };
        let obs_pos = obs.and_then(|r| r.position);
        let obs_cleared = obs.map_or(false, |r| r.position.is_none() && r.even.is_none() && r.odd.is_none());

        // Decide per candidate what the property demands.
        #[derive(PartialEq, Debug, Clone, Copy)]
        enum Dec {
            Publish((f64, f64), f64),
            Clear(&'static str),
            NoPos,
            Ambiguous,
        }
        let decide = |d: &Decode| -> Dec {
            match d {
                Decode::Pos { ambiguous: true, .. } => Dec::Ambiguous,
                Decode::Pos { lat, lon, .. } => {
                    let mut dist = cpr::haversine_km(receiver, (*lat, *lon));
                    // the receiver was put bit-exactly on the published position and the pair
                    // decodes to that position again: the distance is exactly 0, within every
                    // range >= 0, and carries no rounding (no ambiguity band around a range of 0)
                    if receiver_on_this && rec.position.map_or(false, |prev| pos_close(prev, (*lat, *lon))) && max_range >= 0.0 {
                        dist = 0.0;
                    }
                    if dist != 0.0 && close(dist, max_range, BAND) {
                        return Dec::Ambiguous;
                    }
                    if dist > max_range {
                        return Dec::Clear("range");
                    }
                    if let Some(prev) = rec.position {
                        let j = cpr::haversine_km(prev, (*lat, *lon));
                        if close(j, JUMP_KM, BAND) {
                            return Dec::Ambiguous;
                        }
                        if j > JUMP_KM {
                            return Dec::Clear("jump");
                        }
                    }
                    Dec::Publish((*lat, *lon), dist)
                }
                _ => Dec::NoPos,
            }
        };
        let decs: Vec<Dec> = cands.iter().map(decide).collect();

        // Which outcome did the implementation take?
        let mut matched: Option<Dec> = None;
        for d in &decs {
            match d {
                Dec::Publish(p, _) => {
                    if let Some(op) = obs_pos {
                        if pos_close(op, *p) {
                            matched = Some(*d);
                            break;
                        }
                    }
                }
                Dec::Clear(_) => {
                    if obs_cleared {
                        matched = Some(*d);
                        break;
                    }
                }
                Dec::NoPos => {
                    // pair that cannot stem from one location: no position may be
                    // published from it; a cleared record or a record without
                    // position are both accepted.
                    if obs_pos.is_none() {
                        matched = Some(*d);
                        break;
                    }
                }
                Dec::Ambiguous => {}
            }
        }
        if matched.is_none() && decs.iter().any(|d| *d == Dec::Ambiguous) {
            // follow the implementation
            stats.ambiguous += 1;
            if std::env::var("VREF_DEBUG_AMBIG").is_ok() {
                eprintln!("ambiguous: even={e:?} odd={o:?} prev={:?} cands={cands:?} decs={decs:?} obs_pos={obs_pos:?} cleared={obs_cleared} range={max_range} rx={receiver:?}", rec.position);
            }
            if let Some(op) = obs_pos {
                Self::publish(rec, op, obs.and_then(|r| r.distance).unwrap_or(f64::NAN), duplicate, receiver);
            } else {
                Self::clear(rec, obs_cleared);
            }
            return;
        }
        match matched {
            Some(Dec::Publish(p, dist)) => {
                stats.published += 1;
                if duplicate {
                    stats.duplicates += 1;
                }
                Self::publish(rec, p, dist, duplicate, receiver);
            }
            Some(Dec::Clear(why)) => {
                if why == "range" {
                    stats.cleared_range += 1;
                } else {
                    stats.cleared_jump += 1;
                }
                Self::clear(rec, true);
            }
            Some(Dec::NoPos) => {
                stats.undecodable_pairs += 1;
                // whatever is kept of the stored reports, nothing of the old publication may survive
                if let Some(d) = obs.and_then(|r| r.distance) {
                    out.push(Disagreement {
                        prop: "C13",
                        clause: "stale_record_after_undecodable_pair",
                        detail: format!("addr {addr:06x}: the pair even={e:?} odd={o:?} does not decode; position is gone but distance {d} (of the previous position {:?}) is still reported", rec.position),
                    });
                }
                Self::clear(rec, obs_cleared);
            }
            Some(Dec::Ambiguous) | None => {
                // The implementation did something neither candidate allows.
                let want = decs[0];
                let clause = match want {
                    Dec::Publish(..) => {
                        if obs_cleared || obs_pos.is_none() {
                            "position_not_published"
                        } else {
                            "published_position_wrong"
                        }
                    }
                    Dec::Clear("range") => "out_of_range_not_cleared",
                    Dec::Clear(_) => "jump_not_cleared",
                    Dec::NoPos => "position_from_inconsistent_pair",
                    Dec::Ambiguous => "ambiguous",
                };
                out.push(Disagreement {
                    prop: "C13",
                    clause,
                    detail: format!(
                        "addr {addr:06x}: even={:?} odd={:?} prev={:?} expected {:?} (or {:?}); observed position {:?} cleared={obs_cleared}",
                        e, o, rec.position, decs[0], decs.get(1), obs_pos
                    ),
                });
                // resynchronise the model with the implementation so one defect is reported once
                match obs_pos {
                    Some(op) => Self::publish(rec, op, obs.and_then(|r| r.distance).unwrap_or(f64::NAN), duplicate, receiver),
                    None => Self::clear(rec, obs_cleared),
                }
            }
        }
    }

    fn publish(rec: &mut Rec, p: (f64, f64), dist: f64, duplicate: bool, receiver: (f64, f64)) {
        rec.pub_receiver = Some(receiver);
        if let Some(prev) = rec.position {
            // the superseded position enters the track; a re-publication of the
            // identical position by an identical report may or may not add one
            let same = pos_close(prev, p);
            rec.track.push(TrackEntry { pos: prev, optional: duplicate && same });
        }
        rec.position = Some(p);
        rec.distance = Some(dist);
    }

    fn clear(rec: &mut Rec, slots_too: bool) {
        if let Some(prev) = rec.position {
            // a position discarded by a clear may or may not appear in the track
            rec.track.push(TrackEntry { pos: prev, optional: true });
        }
        rec.position = None;
        rec.distance = None;
        if slots_too {
            rec.even = None;
            rec.odd = None;
        }
    }

    /// Expiry with threshold `t_secs` at the current virtual time; `obs` is the
    /// snapshot after the real prune call.
    pub fn prune(&mut self, t_secs: u64, obs: &Snapshot) -> Vec<Disagreement> {
        let mut out = Vec::new();
        let thr: i128 = i128::from(t_secs) * 1_000_000_000;
        let now = self.now_ns;
        let mut gone = Vec::new();
        for (a, r) in &self.recs {
            let el = now - r.last_heard_ns;
            if el < 0 || el >= thr {
                gone.push(*a);
            }
        }
        for a in &gone {
            if obs.contains_key(a) {
                out.push(Disagreement {
                    prop: "C15",
                    clause: "expired_not_removed",
                    detail: format!("addr {a:06x}: silent for {} ns, threshold {} s, still tracked", now - self.recs[a].last_heard_ns, t_secs),
                });
            }
            self.recs.remove(a);
            self.expired.insert(*a);
            self.stats.pruned += 1;
        }
        let survivors: Vec<u32> = self.recs.keys().copied().collect();
        for a in survivors {
            if !obs.contains_key(&a) {
                out.push(Disagreement {
                    prop: "C15",
                    clause: "live_removed",
                    detail: format!("addr {a:06x}: silent for {} ns, threshold {} s, was removed", now - self.recs[&a].last_heard_ns, t_secs),
                });
                // C12: the tracked set only ever shrinks through expiry
                out.push(Disagreement {
                    prop: "C12",
                    clause: "shrinks_only_through_expiry",
                    detail: format!("addr {a:06x}: heard {} ns ago, removed by prune({t_secs})", now - self.recs[&a].last_heard_ns),
                });
                self.recs.remove(&a);
            }
        }
        // whoever is still tracked by the implementation although the model dropped it: drop from view
        let mut o2 = obs.clone();
        o2.retain(|k, _| self.recs.contains_key(k));
        self.compare(&o2, &mut out);
        out
    }

    /// Invariants + record comparison at a quiescent point.
    pub fn compare(&self, obs: &Snapshot, out: &mut Vec<Disagreement>) {
        let mk: Vec<u32> = self.recs.keys().copied().collect();
        let ok: Vec<u32> = obs.keys().copied().collect();
        if mk != ok {
            let missing: Vec<String> = mk.iter().filter(|a| !ok.contains(a)).map(|a| format!("{a:06x}")).collect();
            let extra: Vec<String> = ok.iter().filter(|a| !mk.contains(a)).map(|a| format!("{a:06x}")).collect();
            out.push(Disagreement { prop: "C12", clause: "tracked_set", detail: format!("missing {missing:?} unexpected {extra:?}") });
        }
        for (a, r) in &self.recs {
            let Some(o) = obs.get(a) else { continue };
            if o.num_messages != r.num_messages {
                out.push(Disagreement { prop: "C12", clause: "message_count", detail: format!("addr {a:06x}: {} counted, {} received", o.num_messages, r.num_messages) });
            }
            if o.callsign != r.callsign {
                out.push(Disagreement { prop: "C14", clause: "callsign_latest", detail: format!("addr {a:06x}: {:?} vs latest {:?}", o.callsign, r.callsign) });
            }
            match (r.vel, o.heading, o.speed, o.vert_speed) {
                (None, None, None, None) => {}
                (Some((h, s, v)), Some(oh), Some(os), Some(ov)) => {
                    // heading and speed are stored as f32 by the tracker
                    if !close(oh, f64::from(h as f32), 1e-6) || !close(os, f64::from(s as f32), 1e-6) || ov != i64::from(v) {
                        out.push(Disagreement {
                            prop: "C14",
                            clause: "velocity_latest",
                            detail: format!("addr {a:06x}: heading/speed/vrate {oh}/{os}/{ov} vs latest report {h}/{s}/{v}"),
                        });
                    }
                }
                (m, oh, os, ov) => out.push(Disagreement {
                    prop: "C14",
                    clause: "velocity_latest",
                    detail: format!("addr {a:06x}: presence differs: model {m:?} observed {oh:?}/{os:?}/{ov:?}"),
                }),
            }
            // stored pair
            let me = r.even.map(|(c, alt)| (c.yz, c.xz, alt));
            let mo = r.odd.map(|(c, alt)| (c.yz, c.xz, alt));
            let norm = |x: Option<(u32, u32, Option<u32>)>| x.map(|(y, z, alt)| (y, z, alt.filter(|v| *v != 0)));
            if norm(o.even) != norm(me) || norm(o.odd) != norm(mo) {
                out.push(Disagreement {
                    prop: "C13",
                    clause: "stored_pair",
                    detail: format!("addr {a:06x}: stored even/odd {:?}/{:?} vs most recent since clear {:?}/{:?}", o.even, o.odd, me, mo),
                });
            }
            match (r.position, o.position) {
                (None, None) => {}
                (Some(p), Some(q)) if pos_close(p, q) => {}
                (p, q) => out.push(Disagreement { prop: "C13", clause: "position_state", detail: format!("addr {a:06x}: position {q:?} vs model {p:?}") }),
            }
            // distance iff position, and equal to the great-circle distance
            if o.position.is_some() != o.distance.is_some() {
                out.push(Disagreement {
                    prop: "C14",
                    clause: "distance_iff_position",
                    detail: format!("addr {a:06x}: position {:?} distance {:?}", o.position, o.distance),
                });
            }
            if let (Some(p), Some(d)) = (o.position, o.distance) {
                // the receiver may move between calls: the distance belongs to the receiver position
                // given with the report that led to this publication
                let rx = r.pub_receiver.unwrap_or(self.receiver);
                let want = cpr::haversine_km(rx, p);
                // near the antipode the haversine is ill-conditioned (an ulp in the half-chord term
                // is a decimetre of arc): 1 m there, 1e-9 relative elsewhere
                let abs_tol = if want > 19_900.0 { 1e-3 } else { 1e-6 };
                if !(close(d, want, 1e-9) || (d - want).abs() < abs_tol) {
                    out.push(Disagreement {
                        prop: "C13",
                        clause: "distance_great_circle",
                        detail: format!("addr {a:06x}: distance {d} vs great-circle {want} (receiver {rx:?} position {p:?})"),
                    });
                }
            }
            // altitude of details is that of one of the stored reports
            let alts: Vec<u32> = [o.even, o.odd].iter().flatten().filter_map(|x| x.2).collect();
            if let Some(d) = &o.details {
                if !alts.contains(&d.altitude) {
                    out.push(Disagreement { prop: "C14", clause: "altitude_of_pair", detail: format!("addr {a:06x}: details altitude {} not in stored pair {alts:?}", d.altitude) });
                }
                if Some(d.position) != o.position || Some(d.distance) != o.distance {
                    out.push(Disagreement { prop: "C14", clause: "details_agree", detail: format!("addr {a:06x}: details {d:?} vs record {:?}/{:?}", o.position, o.distance) });
                }
                if d.heading != o.heading {
                    out.push(Disagreement { prop: "C14", clause: "details_agree", detail: format!("addr {a:06x}: details heading {:?} vs {:?}", d.heading, o.heading) });
                }
            }
            let n_alt = [o.even, o.odd].iter().flatten().filter(|x| x.2.is_some()).count();
            // an altitude of 0 ft is one of the two spellings of 'no altitude' (C06): with it the
            // details may be present or absent
            let n_alt_pos = [o.even, o.odd].iter().flatten().filter(|x| x.2.map_or(false, |v| v != 0)).count();
            let n_slots = [o.even, o.odd].iter().flatten().count();
            let base = o.position.is_some() && o.distance.is_some();
            let must = base && n_alt_pos == 2;
            let must_not = !base || n_alt == 0 || n_slots == 0;
            if (must && o.details.is_none()) || (must_not && o.details.is_some()) {
                out.push(Disagreement {
                    prop: "C14",
                    clause: "details_iff",
                    detail: format!("addr {a:06x}: details present={} with position {:?} distance {:?} altitudes {alts:?}", o.details.is_some(), o.position, o.distance),
                });
            }
            if let Some(line) = &o.display_mismatch {
                out.push(Disagreement { prop: "C14", clause: "display_line_differs", detail: format!("addr {a:06x}: the text view prints {line:?}, which is not what aircraft_details returns for this aircraft") });
            }
            if let Some(dt) = &o.details_track {
                if *dt != o.track {
                    out.push(Disagreement { prop: "C14", clause: "details_agree", detail: format!("addr {a:06x}: track inside the details {dt:?} vs the record's {:?}", o.track) });
                }
            }
            if o.in_display != o.details.is_some() {
                out.push(Disagreement { prop: "C14", clause: "display_iff_details", detail: format!("addr {a:06x}: text view line present={} details present={}", o.in_display, o.details.is_some()) });
            }
            if o.in_all_position != o.position {
                out.push(Disagreement { prop: "C14", clause: "all_position", detail: format!("addr {a:06x}: in position list {:?} vs record {:?}", o.in_all_position, o.position) });
            }
            // track: previously published positions, in order (optional entries may be absent)
            if !track_matches(&r.track, &o.track) {
                let want: Vec<String> = r.track.iter().map(|t| format!("{}({:.6},{:.6})", if t.optional { "?" } else { "" }, t.pos.0, t.pos.1)).collect();
                out.push(Disagreement { prop: "C14", clause: "track_history", detail: format!("addr {a:06x}: track {:?} vs superseded positions {want:?}", o.track) });
            }
        }
    }

    /// Forget model state for an address (used when a disagreement was already reported).
    pub fn resync_track(&mut self, addr: u32, obs_track: &[(f64, f64)]) {
        if let Some(r) = self.recs.get_mut(&addr) {
            r.track = obs_track.iter().map(|p| TrackEntry { pos: *p, optional: false }).collect();
        }
    }

    pub fn record_exists(&self, addr: u32) -> bool {
        self.recs.contains_key(&addr)
    }
    pub fn messages_of(&self, addr: u32) -> Option<u64> {
        self.recs.get(&addr).map(|r| r.num_messages)
    }
    pub fn readded(&mut self) {
        self.stats.readded += 1;
    }
}

/// Does `obs` match the pattern (sequence with optional elements)?
fn track_matches(pat: &[TrackEntry], obs: &[(f64, f64)]) -> bool {
    // common case: nothing optional -> plain comparison (long flights have tracks of thousands)
    if pat.iter().all(|t| !t.optional) {
        return pat.len() == obs.len() && pat.iter().zip(obs).all(|(t, o)| pos_close(t.pos, *o));
    }
    // strip the common mandatory prefix before the quadratic matching
    let k = pat.iter().zip(obs).take_while(|(t, o)| !t.optional && pos_close(t.pos, **o)).count();
    let (pat, obs) = (&pat[k..], &obs[k..]);
    // DP over (i in pat, j in obs)
    let n = pat.len();
    let m = obs.len();
    let mut reach = vec![vec![false; m + 1]; n + 1];
    reach[0][0] = true;
    for i in 0..n {
        for j in 0..=m {
            if !reach[i][j] {
                continue;
            }
            if pat[i].optional {
                reach[i + 1][j] = true;
            }
            if j < m && pos_close(pat[i].pos, obs[j]) {
                reach[i + 1][j + 1] = true;
            }
        }
    }
    reach[n][m]
}
