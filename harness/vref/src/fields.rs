//! Word tables: enum codes <-> the variant names the decoder prints in Debug.

pub fn capability(ca: u64) -> String {
    match ca {
        0 => "AG_UNCERTAIN".into(),
        1..=3 => format!("Reserved({ca})"),
        4 => "AG_GROUND".into(),
        5 => "AG_AIRBORNE".into(),
        6 => "AG_UNCERTAIN2".into(),
        _ => "AG_UNCERTAIN3".into(),
    }
}
pub fn capability_word(ca: u64) -> &'static str {
    match ca { 0 => "uncertain1", 1..=3 => "reserved", 4 => "ground", 5 => "airborne", 6 => "uncertain2", _ => "airborne?" }
}
pub fn flight_status(fs: u64) -> &'static str {
    ["NoAlertNoSPIAirborne", "NoAlertNoSPIOnGround", "AlertNoSPIAirborne", "AlertNoSPIOnGround",
     "AlertSPIAirborneGround", "NoAlertSPIAirborneGround", "Reserved", "NotAssigned"][fs as usize & 7]
}
pub fn flight_status_word(fs: u64) -> &'static str {
    match fs { 0 | 4 | 5 => "airborne?", 1 => "ground?", 2 => "airborne", 3 => "ground", _ => "reserved" }
}
pub fn downlink_request(dr: u64) -> String {
    match dr {
        0 => "None".into(), 1 => "RequestSendCommB".into(), 4 => "CommBBroadcastMsg1".into(),
        5 => "CommBBroadcastMsg2".into(), n => format!("Unknown({n})"),
    }
}
pub fn um_type(ids: u64) -> &'static str {
    ["NoInformation", "CommB", "CommC", "CommD"][ids as usize & 3]
}
pub fn cf_type(cf: u64) -> &'static str {
    ["ADSB_ES_NT", "ADSB_ES_NT_ALT", "TISB_FINE", "TISB_COARSE", "TISB_MANAGE", "TISB_ADSB_RELAY", "TISB_ADSB", "Reserved"][cf as usize & 7]
}
pub fn cf_word(cf: u64) -> &'static str {
    match cf { 0 | 1 => "(ADS-B)", 2 | 3 | 5 => "(TIS-B)", 4 | 6 => "(ADS-R)", _ => "(unknown addressing scheme)" }
}
pub fn surveillance_status(ss: u64) -> &'static str {
    ["NoCondition", "PermanentAlert", "TemporaryAlert", "SPICondition"][ss as usize & 3]
}
pub fn emergency_state(e: u64) -> &'static str {
    ["None", "General", "Lifeguard", "MinimumFuel", "NoCommunication", "UnlawfulInterference", "DownedAircraft", "Reserved2"][e as usize & 7]
}
pub fn emergency_word(e: u64) -> &'static str {
    ["no emergency", "general", "lifeguard", "minimum fuel", "no communication", "unflawful interference", "downed aircraft", "reserved2"][e as usize & 7]
}
pub fn aircraft_status_type(st: u64) -> &'static str {
    match st { 0 => "NoInformation", 1 => "EmergencyPriorityStatus", 2 => "ACASRaBroadcast", _ => "Reserved" }
}
pub fn type_coding(tc: u64) -> &'static str {
    match tc { 1 => "D", 2 => "C", 3 => "B", 4 => "A", _ => "?" }
}
pub fn me_variant(tc: u64) -> &'static str {
    match tc {
        0 => "NoPosition",
        1..=4 => "AircraftIdentification",
        5..=8 => "SurfacePosition",
        9..=18 => "AirbornePositionBaroAltitude",
        19 => "AirborneVelocity",
        20..=22 => "AirbornePositionGNSSAltitude",
        23 => "Reserved0",
        24 => "SurfaceSystemStatus",
        25..=27 => "Reserved1",
        28 => "AircraftStatus",
        29 => "TargetStateAndStatusInformation",
        30 => "AircraftOperationalCoordination",
        _ => "AircraftOperationStatus",
    }
}
pub fn df_variant(df: u64) -> Option<&'static str> {
    Some(match df {
        0 => "ShortAirAirSurveillance",
        4 => "SurveillanceAltitudeReply",
        5 => "SurveillanceIdentityReply",
        11 => "AllCallReply",
        16 => "LongAirAir",
        17 => "ADSB",
        18 => "TisB",
        19 => "ExtendedQuitterMilitaryApplication",
        20 => "CommBAltitudeReply",
        21 => "CommBIdentityReply",
        24..=31 => "ModeSExtendedSquitter",
        _ => return None,
    })
}
pub fn sign(s: u64) -> &'static str { if s == 0 { "Positive" } else { "Negative" } }
pub fn cpr_format(f: u64) -> &'static str { if f == 0 { "Even" } else { "Odd" } }
/// Vertical rate source bit -> the decoder's word, as pinned by the existing
/// suite (bit 1 <-> GeometricAltitude). See DESIGN §3.
pub fn vrate_src(s: u64) -> &'static str { if s == 0 { "BarometricPressureAltitude" } else { "GeometricAltitude" } }
pub fn vrate_src_word(s: u64) -> &'static str { if s == 0 { "barometric" } else { "GNSS" } }
pub fn adsb_version(v: u64) -> Option<&'static str> {
    match v { 0 => Some("DOC9871AppendixA"), 1 => Some("DOC9871AppendixB"), 2 => Some("DOC9871AppendixC"), _ => None }
}
pub fn ground_track_status(s: u64) -> &'static str { if s == 0 { "Invalid" } else { "Valid" } }
