//! Parser for Rust `{:?}` (derive(Debug), non-pretty) output into a tree that
//! oracles address by path. This is the observation a user of the library has;
//! it reaches private fields and keeps the harness compiling when a field is
//! added or reordered in /repo.

#[derive(Debug, Clone, PartialEq)]
pub enum Kind {
    Leaf,
    Tuple,
    Struct,
    List,
    Map,
}

#[derive(Debug, Clone, PartialEq)]
pub struct Node {
    /// identifier before `(`/`{`, or the literal text for a leaf, "" for bare lists/tuples/maps
    pub name: String,
    pub kind: Kind,
    pub children: Vec<(String, Node)>,
    /// exact source text of this node
    pub text: String,
}

impl Node {
    pub fn child(&self, key: &str) -> Option<&Node> {
        self.children.iter().find(|(k, _)| k == key).map(|(_, n)| n)
    }

    /// Path like "df.0.me.0.alt"; components are field names or tuple/list indices.
    pub fn get(&self, path: &str) -> Option<&Node> {
        let mut n = self;
        if path.is_empty() {
            return Some(n);
        }
        for comp in path.split('.') {
            n = n.child(comp)?;
        }
        Some(n)
    }

    pub fn text_at(&self, path: &str) -> Option<&str> {
        self.get(path).map(|n| n.text.as_str())
    }

    pub fn name_at(&self, path: &str) -> Option<&str> {
        self.get(path).map(|n| n.name.as_str())
    }

    /// Content of a string literal leaf, unescaped.
    pub fn as_str(&self) -> Option<String> {
        if self.kind != Kind::Leaf || !self.text.starts_with('"') {
            return None;
        }
        let inner = &self.text[1..self.text.len() - 1];
        let mut out = String::new();
        let mut it = inner.chars().peekable();
        while let Some(c) = it.next() {
            if c == '\\' {
                match it.next() {
                    Some('n') => out.push('\n'),
                    Some('t') => out.push('\t'),
                    Some('r') => out.push('\r'),
                    Some('0') => out.push('\0'),
                    Some('\\') => out.push('\\'),
                    Some('"') => out.push('"'),
                    Some('\'') => out.push('\''),
                    Some('u') => {
                        // \u{...}
                        let mut hex = String::new();
                        if it.next() == Some('{') {
                            for h in it.by_ref() {
                                if h == '}' {
                                    break;
                                }
                                hex.push(h);
                            }
                        }
                        if let Some(ch) = u32::from_str_radix(&hex, 16).ok().and_then(char::from_u32) {
                            out.push(ch);
                        }
                    }
                    Some(o) => out.push(o),
                    None => {}
                }
            } else {
                out.push(c);
            }
        }
        Some(out)
    }

    pub fn as_u64(&self) -> Option<u64> {
        self.text.parse().ok()
    }
    pub fn as_i64(&self) -> Option<i64> {
        self.text.parse().ok()
    }
    pub fn as_f64(&self) -> Option<f64> {
        match self.text.as_str() {
            "inf" => Some(f64::INFINITY),
            "-inf" => Some(f64::NEG_INFINITY),
            "NaN" => Some(f64::NAN),
            t => t.parse().ok(),
        }
    }
    pub fn as_bool(&self) -> Option<bool> {
        match self.text.as_str() {
            "true" => Some(true),
            "false" => Some(false),
            _ => None,
        }
    }

    /// All leaf paths with their text (depth first), for differential checks.
    pub fn leaves(&self) -> Vec<(String, String)> {
        let mut out = Vec::new();
        fn walk(n: &Node, prefix: &str, out: &mut Vec<(String, String)>) {
            // the node's own name is an observable too (variant selection)
            if n.kind != Kind::Leaf && !n.name.is_empty() {
                out.push((format!("{prefix}#"), n.name.clone()));
            }
            if n.kind == Kind::Leaf {
                out.push((prefix.to_string(), n.text.clone()));
                return;
            }
            for (k, c) in &n.children {
                let p = if prefix.is_empty() { k.clone() } else { format!("{prefix}.{k}") };
                walk(c, &p, out);
            }
        }
        walk(self, "", &mut out);
        out
    }
}

struct P<'a> {
    s: &'a [u8],
    src: &'a str,
    i: usize,
}

impl<'a> P<'a> {
    fn ws(&mut self) {
        while self.i < self.s.len() && (self.s[self.i] as char).is_whitespace() {
            self.i += 1;
        }
    }
    fn peek(&self) -> Option<u8> {
        self.s.get(self.i).copied()
    }
    fn eat(&mut self, c: u8) -> bool {
        self.ws();
        if self.peek() == Some(c) {
            self.i += 1;
            true
        } else {
            false
        }
    }

    fn seq(&mut self, close: u8) -> Result<Vec<Node>, String> {
        let mut items = Vec::new();
        loop {
            self.ws();
            if self.eat(close) {
                break;
            }
            items.push(self.value()?);
            self.ws();
            if self.eat(b',') {
                continue;
            }
            if self.eat(close) {
                break;
            }
            return Err(format!("expected , or {} at {}", close as char, self.i));
        }
        Ok(items)
    }

    fn value(&mut self) -> Result<Node, String> {
        self.ws();
        let start = self.i;
        let c = self.peek().ok_or("eof")?;
        let mk = |name: String, kind: Kind, children: Vec<(String, Node)>, p: &P| Node {
            name,
            kind,
            children,
            text: p.src[start..p.i].to_string(),
        };
        if c == b'"' {
            self.i += 1;
            while let Some(ch) = self.peek() {
                if ch == b'\\' {
                    self.i += 2;
                } else if ch == b'"' {
                    self.i += 1;
                    break;
                } else {
                    self.i += 1;
                }
            }
            let t = self.src[start..self.i].to_string();
            return Ok(Node { name: t.clone(), kind: Kind::Leaf, children: vec![], text: t });
        }
        if c == b'\'' {
            // char literal
            self.i += 1;
            while let Some(ch) = self.peek() {
                if ch == b'\\' {
                    self.i += 2;
                } else if ch == b'\'' {
                    self.i += 1;
                    break;
                } else {
                    self.i += 1;
                }
            }
            let t = self.src[start..self.i].to_string();
            return Ok(Node { name: t.clone(), kind: Kind::Leaf, children: vec![], text: t });
        }
        if c == b'[' {
            self.i += 1;
            let items = self.seq(b']')?;
            let ch = items.into_iter().enumerate().map(|(i, n)| (i.to_string(), n)).collect();
            return Ok(mk(String::new(), Kind::List, ch, self));
        }
        if c == b'(' {
            self.i += 1;
            let items = self.seq(b')')?;
            let ch = items.into_iter().enumerate().map(|(i, n)| (i.to_string(), n)).collect();
            return Ok(mk(String::new(), Kind::Tuple, ch, self));
        }
        if c == b'{' {
            // map: key: value
            self.i += 1;
            let mut ch = Vec::new();
            loop {
                self.ws();
                if self.eat(b'}') {
                    break;
                }
                let k = self.value()?;
                if !self.eat(b':') {
                    // a set
                    ch.push((k.text.clone(), k));
                } else {
                    let v = self.value()?;
                    ch.push((k.text.clone(), v));
                }
                self.ws();
                if self.eat(b',') {
                    continue;
                }
                if self.eat(b'}') {
                    break;
                }
                return Err(format!("expected , or }} at {}", self.i));
            }
            return Ok(mk(String::new(), Kind::Map, ch, self));
        }
        // identifier or number
        while let Some(ch) = self.peek() {
            let chc = ch as char;
            if chc.is_alphanumeric() || ch == b'_' || ch == b'.' || ch == b'-' || ch == b'+' || ch == b':' && self.s.get(self.i + 1) == Some(&b':') {
                if ch == b':' {
                    self.i += 2;
                } else {
                    self.i += 1;
                }
            } else {
                break;
            }
        }
        if self.i == start {
            return Err(format!("unexpected {:?} at {}", c as char, self.i));
        }
        let name = self.src[start..self.i].to_string();
        // lookahead (allow one space as in `Name { .. }`)
        let save = self.i;
        self.ws();
        match self.peek() {
            Some(b'(') => {
                self.i += 1;
                let items = self.seq(b')')?;
                let ch = items.into_iter().enumerate().map(|(i, n)| (i.to_string(), n)).collect();
                Ok(mk(name, Kind::Tuple, ch, self))
            }
            Some(b'{') if name.chars().next().map_or(false, |c| c.is_alphabetic() || c == '_') => {
                self.i += 1;
                let mut ch = Vec::new();
                loop {
                    self.ws();
                    if self.eat(b'}') {
                        break;
                    }
                    // `..` of non-exhaustive debug
                    if self.peek() == Some(b'.') {
                        while self.peek() == Some(b'.') {
                            self.i += 1;
                        }
                        continue;
                    }
                    let ks = self.i;
                    while let Some(c2) = self.peek() {
                        if (c2 as char).is_alphanumeric() || c2 == b'_' || c2 == b'#' {
                            self.i += 1;
                        } else {
                            break;
                        }
                    }
                    let key = self.src[ks..self.i].to_string();
                    if !self.eat(b':') {
                        return Err(format!("expected : after field {key} at {}", self.i));
                    }
                    let v = self.value()?;
                    ch.push((key, v));
                    self.ws();
                    if self.eat(b',') {
                        continue;
                    }
                    if self.eat(b'}') {
                        break;
                    }
                    return Err(format!("expected , or }} at {}", self.i));
                }
                Ok(mk(name, Kind::Struct, ch, self))
            }
            _ => {
                self.i = save;
                Ok(Node { name: name.clone(), kind: Kind::Leaf, children: vec![], text: name })
            }
        }
    }
}

pub fn parse(src: &str) -> Result<Node, String> {
    let mut p = P { s: src.as_bytes(), src, i: 0 };
    let n = p.value()?;
    p.ws();
    if p.i != src.len() {
        return Err(format!("trailing input at {} of {}", p.i, src.len()));
    }
    Ok(n)
}

#[cfg(test)]
mod tests {
    use super::*;
    #[test]
    fn basic() {
        let s = r#"Frame { df: ADSB(ADSB { capability: AG_AIRBORNE, icao: ICAO([64, 98, 29]), me: AirbornePositionBaroAltitude(Altitude { tc: 11, alt: Some(38000), t: false, q: -1.5e-7, s: "A\"B" }), pi: ICAO([40, 99, 167]) }), crc: 0 }"#;
        let n = parse(s).unwrap();
        assert_eq!(n.name, "Frame");
        assert_eq!(n.text_at("df.0.icao"), Some("ICAO([64, 98, 29])"));
        assert_eq!(n.text_at("df.0.me.0.alt"), Some("Some(38000)"));
        assert_eq!(n.text_at("df.0.me.0.alt.0"), Some("38000"));
        assert_eq!(n.name_at("df.0.me"), Some("AirbornePositionBaroAltitude"));
        assert_eq!(n.get("df.0.me.0.s").unwrap().as_str().unwrap(), "A\"B");
        assert_eq!(n.get("df.0.me.0.q").unwrap().as_f64().unwrap(), -1.5e-7);
        assert_eq!(n.text_at("crc"), Some("0"));
        let m = parse("{ICAO([1, 2, 3]): S { a: 1 }, ICAO([4, 5, 6]): S { a: 2 }}").unwrap();
        assert_eq!(m.children.len(), 2);
        let t = parse("Unknown((3, [1, 2]))").unwrap();
        assert_eq!(t.text_at("0.1.1"), Some("2"));
    }
}
