//! The fixed per-type text templates (dump1090-style reports pinned by the
//! README and the test-suite examples), instantiated from a frame's own decoded
//! values as observed in its Debug tree. Written from the pinned examples and
//! the documented report layout; a renderer that deviates from these templates
//! for *any* frame violates C11.

use crate::dbg::Node;
use crate::fields as w;

#[derive(Debug)]
pub struct Missing(pub String);

fn num(n: &Node, path: &str) -> Result<u64, Missing> {
    n.get(path).and_then(|x| x.as_u64()).ok_or_else(|| Missing(path.to_string()))
}
fn boolean(n: &Node, path: &str) -> Result<bool, Missing> {
    n.get(path).and_then(|x| x.as_bool()).ok_or_else(|| Missing(path.to_string()))
}
fn f32v(n: &Node, path: &str) -> Result<f32, Missing> {
    n.get(path).and_then(|x| x.text.parse::<f32>().ok()).ok_or_else(|| Missing(path.to_string()))
}
fn name<'a>(n: &'a Node, path: &str) -> Result<&'a str, Missing> {
    n.get(path).map(|x| x.name.as_str()).ok_or_else(|| Missing(path.to_string()))
}
fn string(n: &Node, path: &str) -> Result<String, Missing> {
    n.get(path).and_then(|x| x.as_str()).ok_or_else(|| Missing(path.to_string()))
}
fn icao(n: &Node, path: &str) -> Result<String, Missing> {
    let a = num(n, &format!("{path}.0.0"))?;
    let b = num(n, &format!("{path}.0.1"))?;
    let c = num(n, &format!("{path}.0.2"))?;
    Ok(format!("{a:02x}{b:02x}{c:02x}"))
}

fn code_of(names: &[&str], got: &str) -> Option<u64> {
    names.iter().position(|x| *x == got).map(|i| i as u64)
}

fn flight_status_word(n: &Node, path: &str) -> Result<&'static str, Missing> {
    let nm = name(n, path)?;
    let all: Vec<&str> = (0..8).map(w::flight_status).collect();
    code_of(&all, nm).map(w::flight_status_word).ok_or_else(|| Missing(format!("{path}={nm}")))
}

fn capability_word(n: &Node, path: &str) -> Result<&'static str, Missing> {
    let nm = name(n, path)?;
    Ok(match nm {
        "AG_UNCERTAIN" => "uncertain1",
        "Reserved" => "reserved",
        "AG_GROUND" => "ground",
        "AG_AIRBORNE" => "airborne",
        "AG_UNCERTAIN2" => "uncertain2",
        "AG_UNCERTAIN3" => "airborne?",
        o => return Err(Missing(format!("{path}={o}"))),
    })
}

fn sign_word(n: &Node, path: &str) -> Result<&'static str, Missing> {
    match name(n, path)? {
        "Positive" => Ok(""),
        "Negative" => Ok("-"),
        o => Err(Missing(format!("{path}={o}"))),
    }
}

/// Values of `AirborneVelocity::calculate()` for this frame, as observed.
pub type Calc = Option<(f32, f64, i16)>;

pub fn render(root: &Node, calc: Calc) -> Result<String, Missing> {
    let crc = num(root, "crc")?;
    let df = name(root, "df")?;
    let mut s = String::new();
    match df {
        "ShortAirAirSurveillance" => {
            s += " Short Air-Air Surveillance\n";
            s += &format!("  ICAO Address:  {crc:06x} (Mode S / ADS-B)\n");
            let alt = num(root, "df.altitude.0")?;
            if alt > 0 {
                s += "  Air/Ground:    airborne?\n";
                s += &format!("  Altitude:      {alt} ft barometric\n");
            } else {
                s += "  Air/Ground:    ground\n";
            }
        }
        "SurveillanceAltitudeReply" => {
            s += " Surveillance, Altitude Reply\n";
            s += &format!("  ICAO Address:  {crc:06x} (Mode S / ADS-B)\n");
            s += &format!("  Air/Ground:    {}\n", flight_status_word(root, "df.fs")?);
            let alt = num(root, "df.ac.0")?;
            if alt > 0 {
                s += &format!("  Altitude:      {alt} ft barometric\n");
            }
        }
        "SurveillanceIdentityReply" => {
            s += " Surveillance, Identity Reply\n";
            s += &format!("  ICAO Address:  {crc:06x} (Mode S / ADS-B)\n");
            s += &format!("  Air/Ground:    {}\n", flight_status_word(root, "df.fs")?);
            s += &format!("  Identity:      {:04x}\n", num(root, "df.id.0")?);
        }
        "AllCallReply" => {
            s += " All Call Reply\n";
            s += &format!("  ICAO Address:  {} (Mode S / ADS-B)\n", icao(root, "df.icao")?);
            s += &format!("  Air/Ground:    {}\n", capability_word(root, "df.capability")?);
        }
        "LongAirAir" => {
            s += " Long Air-Air ACAS\n";
            s += &format!("  ICAO Address:  {crc:06x} (Mode S / ADS-B)\n");
            let alt = num(root, "df.altitude.0")?;
            if alt > 0 {
                s += "  Air/Ground:    airborne?\n";
                s += &format!("  Baro altitude: {alt} ft\n");
            } else {
                s += "  Air/Ground:    ground\n";
            }
        }
        "ADSB" => {
            let addr = icao(root, "df.0.icao")?;
            let cap = capability_word(root, "df.0.capability")?;
            s += &me_text(root, "df.0.me", &addr, "(Mode S / ADS-B)", cap, true, calc)?;
        }
        "TisB" => {
            let addr = icao(root, "df.cf.aa")?;
            let t = name(root, "df.cf.t")?;
            let all: Vec<&str> = (0..8).map(w::cf_type).collect();
            let code = code_of(&all, t).ok_or_else(|| Missing(format!("df.cf.t={t}")))?;
            s += &me_text(root, "df.cf.me", &addr, w::cf_word(code), "airborne?", false, calc)?;
        }
        "ExtendedQuitterMilitaryApplication" => {}
        "CommBAltitudeReply" => {
            s += " Comm-B, Altitude Reply\n";
            s += &format!("  ICAO Address:  {crc:x} (Mode S / ADS-B)\n");
            s += &format!("  Altitude:      {} ft\n", num(root, "df.alt.0")?);
            s += &format!("  {}", bds_text(root, "df.bds")?);
        }
        "CommBIdentityReply" => {
            s += " Comm-B, Identity Reply\n";
            s += &format!("    ICAO Address:  {crc:x} (Mode S / ADS-B)\n");
            s += &format!("    Squawk:        {:x}\n", num(root, "df.id")?);
            s += &format!("    {}", bds_text(root, "df.bds")?);
        }
        "ModeSExtendedSquitter" => {
            s += " Mode S Extended Squitter Message\n";
            s += &format!("    ICAO Address:     {crc:x} (Mode S / ADS-B)\n");
        }
        o => return Err(Missing(format!("df={o}"))),
    }
    Ok(s)
}

fn bds_text(root: &Node, p: &str) -> Result<String, Missing> {
    Ok(match name(root, p)? {
        "Empty" => "Comm-B format: empty response\n".to_string(),
        "AircraftIdentification" => {
            format!("Comm-B format: BDS2,0 Aircraft identification\n  Ident:         {}\n", string(root, &format!("{p}.0"))?)
        }
        "DataLinkCapability" => "Comm-B format: BDS1,0 Datalink capabilities\n".to_string(),
        "Unknown" => "Comm-B format: unknown format\n".to_string(),
        o => return Err(Missing(format!("{p}={o}"))),
    })
}

fn altitude_block(root: &Node, p: &str) -> Result<String, Missing> {
    let mut s = String::new();
    let alt = root.get(&format!("{p}.alt")).ok_or_else(|| Missing(format!("{p}.alt")))?;
    let alt_s = if alt.name == "Some" { format!("{} ft barometric", num(root, &format!("{p}.alt.0"))?) } else { "None".to_string() };
    s += &format!("  Altitude:      {alt_s}\n");
    s += "  CPR type:      Airborne\n";
    let f = match name(root, &format!("{p}.odd_flag"))? {
        "Even" => "even",
        "Odd" => "odd",
        o => return Err(Missing(format!("odd_flag={o}"))),
    };
    s += &format!("  CPR odd flag:  {f}\n");
    s += &format!("  CPR latitude:  ({})\n", num(root, &format!("{p}.lat_cpr"))?);
    s += &format!("  CPR longitude: ({})\n", num(root, &format!("{p}.lon_cpr"))?);
    Ok(s)
}

fn om_text(root: &Node, p: &str) -> Result<String, Missing> {
    let mut s = String::new();
    if boolean(root, &format!("{p}.tcas_ra_active"))? {
        s += " TCAS";
    }
    if boolean(root, &format!("{p}.ident_switch_active"))? {
        s += " IDENT_SWITCH_ACTIVE";
    }
    if boolean(root, &format!("{p}.reserved_recv_atc_service"))? {
        s += " ATC";
    }
    if boolean(root, &format!("{p}.single_antenna_flag"))? {
        s += " SAF";
    }
    let sda = num(root, &format!("{p}.system_design_assurance"))?;
    if sda != 0 {
        s += &format!(" SDA={sda}");
    }
    Ok(s)
}

fn version_num(root: &Node, p: &str) -> Result<u64, Missing> {
    match name(root, p)? {
        "DOC9871AppendixA" => Ok(0),
        "DOC9871AppendixB" => Ok(1),
        "DOC9871AppendixC" => Ok(2),
        o => Err(Missing(format!("{p}={o}"))),
    }
}

fn hrd(root: &Node, p: &str) -> Result<&'static str, Missing> {
    Ok(if num(root, p)? == 1 { "   Heading reference:  magnetic north\n" } else { "   Heading reference:  true north\n" })
}

#[allow(clippy::too_many_arguments)]
fn me_text(root: &Node, p: &str, addr: &str, addr_type: &str, cap: &str, transponder: bool, calc: Calc) -> Result<String, Missing> {
    let t = if transponder { " " } else { " (Non-Transponder) " };
    let mut s = String::new();
    let var = name(root, p)?;
    let q = |f: &str| format!("{p}.0.{f}");
    match var {
        "NoPosition" => {
            s += &format!(" Extended Squitter{t}No position information\n");
            s += &format!("  Address:       {addr} {addr_type}\n");
            s += &format!("  Air/Ground:    {cap}\n");
        }
        "AircraftIdentification" => {
            s += &format!(" Extended Squitter{t}Aircraft identification and category\n");
            s += &format!("  Address:       {addr} {addr_type}\n");
            s += &format!("  Air/Ground:    {cap}\n");
            s += &format!("  Ident:         {}\n", string(root, &q("cn"))?);
            s += &format!("  Category:      {}{}\n", name(root, &q("tc"))?, num(root, &q("ca"))?);
        }
        "SurfacePosition" => {
            s += &format!(" Extended Squitter{t}Surface position\n");
            s += &format!("  Address:       {addr} {addr_type}\n");
        }
        "AirbornePositionBaroAltitude" => {
            s += &format!(" Extended Squitter{t}Airborne position (barometric altitude)\n");
            s += &format!("  Address:       {addr} {addr_type}\n");
            s += &format!("  Air/Ground:    {cap}\n");
            s += &altitude_block(root, &format!("{p}.0"))?;
        }
        "AirbornePositionGNSSAltitude" => {
            s += &format!(" Extended Squitter{t}Airborne position (GNSS altitude)\n");
            s += &format!("  Address:      {addr} {addr_type}\n");
            s += &altitude_block(root, &format!("{p}.0"))?;
        }
        "AirborneVelocity" => match name(root, &q("sub_type"))? {
            "GroundSpeedDecoding" => {
                s += &format!(" Extended Squitter{t}Airborne velocity over ground, subsonic\n");
                s += &format!("  Address:       {addr} {addr_type}\n");
                s += &format!("  Air/Ground:    {cap}\n");
                s += &format!("  GNSS delta:    {}{} ft\n", sign_word(root, &q("gnss_sign"))?, num(root, &q("gnss_baro_diff"))?);
                if let Some((heading, gs, vr)) = calc {
                    s += &format!("  Heading:       {}\n", f64::from(heading).ceil());
                    s += &format!("  Speed:         {} kt groundspeed\n", gs.floor());
                    let src = match name(root, &q("vrate_src"))? {
                        "BarometricPressureAltitude" => "barometric",
                        "GeometricAltitude" => "GNSS",
                        o => return Err(Missing(format!("vrate_src={o}"))),
                    };
                    s += &format!("  Vertical rate: {vr} ft/min {src}\n");
                } else {
                    s += "  Invalid packet\n";
                }
            }
            "AirspeedDecoding" => {
                s += &format!(" Extended Squitter{t}Airspeed and heading, subsonic\n");
                s += &format!("  Address:       {addr} {addr_type}\n");
                s += &format!("  Air/Ground:    {cap}\n");
                s += &format!("  IAS:           {} kt\n", num(root, &q("sub_type.0.airspeed"))?);
                let v = num(root, &q("vrate_value"))?;
                if v > 0 {
                    s += &format!("  Baro rate:     {}{} ft/min\n", sign_word(root, &q("vrate_sign"))?, (v - 1) * 64);
                }
                s += &format!("  NACv:          {}\n", num(root, &q("nac_v"))?);
            }
            "Reserved0" | "Reserved1" => {
                s += &format!(" Extended Squitter{t}Airborne Velocity status (reserved)\n");
                s += &format!("  Address:       {addr} {addr_type}\n");
            }
            o => return Err(Missing(format!("sub_type={o}"))),
        },
        "Reserved0" | "Reserved1" => {
            s += &format!(" Extended Squitter{t}Unknown\n");
            s += &format!("  Address:       {addr} {addr_type}\n");
            s += &format!("  Air/Ground:    {cap}\n");
        }
        "SurfaceSystemStatus" => {
            s += &format!(" Extended Squitter{t}Reserved for surface system status\n");
            s += &format!("  Address:       {addr} {addr_type}\n");
            s += &format!("  Air/Ground:    {cap}\n");
        }
        "AircraftStatus" => {
            s += &format!(" Extended Squitter{t}Emergency/priority status\n");
            s += &format!("  Address:       {addr} {addr_type}\n");
            s += &format!("  Air/Ground:    {cap}\n");
            s += &format!("  Squawk:        {:x}\n", num(root, &q("squawk"))?);
            let e = name(root, &q("emergency_state"))?;
            let all: Vec<&str> = (0..8).map(w::emergency_state).collect();
            let code = code_of(&all, e).ok_or_else(|| Missing(format!("emergency_state={e}")))?;
            s += &format!("  Emergency/priority:    {}\n", w::emergency_word(code));
        }
        "TargetStateAndStatusInformation" => {
            s += &format!(" Extended Squitter{t}Target state and status (V2)\n");
            s += &format!("  Address:       {addr} {addr_type}\n");
            s += &format!("  Air/Ground:    {cap}\n");
            s += "  Target State and Status:\n";
            s += &format!("    Target altitude:   MCP, {} ft\n", num(root, &q("altitude"))?);
            let qnh = f32v(root, &q("qnh"))?;
            s += &format!("    Altimeter setting: {qnh} millibars\n");
            if boolean(root, &q("is_heading"))? {
                s += &format!("    Target heading:    {}\n", f32v(root, &q("heading"))?);
            }
            if boolean(root, &q("tcas"))? {
                s += "    ACAS:              operational ";
                if boolean(root, &q("autopilot"))? {
                    s += "autopilot ";
                }
                if boolean(root, &q("vnac"))? {
                    s += "vnav ";
                }
                if boolean(root, &q("alt_hold"))? {
                    s += "altitude-hold ";
                }
                if boolean(root, &q("approach"))? {
                    s += " approach";
                }
                s += "\n";
            } else {
                s += "    ACAS:              NOT operational\n";
            }
            s += &format!("    NACp:              {}\n", num(root, &q("nacp"))?);
            s += &format!("    NICbaro:           {}\n", num(root, &q("nicbaro"))?);
            s += &format!("    SIL:               {} (per sample)\n", num(root, &q("sil"))?);
            s += &format!("    QNH:               {qnh} millibars\n");
        }
        "AircraftOperationalCoordination" => {
            s += &format!(" Extended Squitter{t}Aircraft Operational Coordination\n");
            s += &format!("  Address:       {addr} {addr_type}\n");
        }
        "AircraftOperationStatus" => {
            let sub = name(root, &format!("{p}.0"))?;
            let r = |f: &str| format!("{p}.0.0.{f}");
            match sub {
                "Airborne" => {
                    s += &format!(" Extended Squitter{t}Aircraft operational status (airborne)\n");
                    s += &format!("  Address:       {addr} {addr_type}\n");
                    s += &format!("  Air/Ground:    {cap}\n");
                    s += "  Aircraft Operational Status:\n";
                    s += &format!("   Version:            {}\n", version_num(root, &r("version_number"))?);
                    let mut cc = String::new();
                    if num(root, &r("capability_class.acas"))? == 1 {
                        cc += " ACAS";
                    }
                    if num(root, &r("capability_class.cdti"))? == 1 {
                        cc += " CDTI";
                    }
                    if num(root, &r("capability_class.arv"))? == 1 {
                        cc += " ARV";
                    }
                    if num(root, &r("capability_class.ts"))? == 1 {
                        cc += " TS";
                    }
                    if num(root, &r("capability_class.tc"))? == 1 {
                        cc += " TC";
                    }
                    s += &format!("   Capability classes:{cc}\n");
                    s += &format!("   Operational modes: {}\n", om_text(root, &r("operational_mode"))?);
                    s += &format!("   NIC-A:              {}\n", num(root, &r("nic_supplement_a"))?);
                    s += &format!("   NACp:               {}\n", num(root, &r("navigational_accuracy_category"))?);
                    s += &format!("   GVA:                {}\n", num(root, &r("geometric_vertical_accuracy"))?);
                    s += &format!("   SIL:                {} (per hour)\n", num(root, &r("source_integrity_level"))?);
                    s += &format!("   NICbaro:            {}\n", num(root, &r("barometric_altitude_integrity"))?);
                    s += hrd(root, &r("horizontal_reference_direction"))?;
                }
                "Surface" => {
                    s += &format!(" Extended Squitter{t}Aircraft operational status (surface)\n");
                    s += &format!("  Address:       {addr} {addr_type}\n");
                    s += &format!("  Air/Ground:    {cap}\n");
                    s += "  Aircraft Operational Status:\n ";
                    s += &format!("  Version:            {}\n", version_num(root, &r("version_number"))?);
                    s += &format!("   NIC-A:              {}\n", num(root, &r("nic_supplement_a"))?);
                    s += &format!("   NIC-C:              {}\n", num(root, &r("capability_class.nic_supplement_c"))?);
                    s += &format!("   NACv:               {}\n", num(root, &r("capability_class.nac_v"))?);
                    s += "   Capability classes:";
                    let lw = num(root, &r("lw_codes"))?;
                    if lw != 0 {
                        s += &format!(" L/W={lw}\n");
                    } else {
                        s += "\n";
                    }
                    s += &format!("   Operational modes: {}\n", om_text(root, &r("operational_mode"))?);
                    s += &format!("   NACp:               {}\n", num(root, &r("navigational_accuracy_category"))?);
                    s += &format!("   SIL:                {} (per hour)\n", num(root, &r("source_integrity_level"))?);
                    s += &format!("   NICbaro:            {}\n", num(root, &r("barometric_altitude_integrity"))?);
                    s += hrd(root, &r("horizontal_reference_direction"))?;
                }
                "Reserved" => {
                    s += &format!(" Extended Squitter{t}Aircraft operational status (reserved)\n");
                    s += &format!("  Address:       {addr} {addr_type}\n");
                }
                o => return Err(Missing(format!("opstatus={o}"))),
            }
        }
        o => return Err(Missing(format!("me={o}"))),
    }
    Ok(s)
}
