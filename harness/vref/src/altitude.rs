//! Altitude codes of Annex 10 vol IV 3.1.2.6.5.4 (13-bit AC field) and the
//! 12-bit variant carried in airborne position squitters.

/// Gillham: map from the 11 code pulses to altitude in feet, built
/// constructively from the definition of the code, not from an algorithm that
/// decodes it.
///
/// 500 ft increments: reflected Gray code over D2 D4 A1 A2 A4 B1 B2 B4
/// (D2 most significant; D1 is not used). 100 ft increments within a 500 ft
/// band: C1 C2 C4 runs through 001, 011, 010, 110, 100, reflected in every
/// other band. Lowest code is -1200 ft.
pub struct Gillham {
    /// index: bits [D2 D4 A1 A2 A4 B1 B2 B4 C1 C2 C4] (11 bits) -> altitude ft
    table: Vec<Option<i32>>,
}

impl Default for Gillham {
    fn default() -> Self {
        Self::new()
    }
}

impl Gillham {
    pub fn new() -> Self {
        let mut table = vec![None; 1 << 11];
        let cseq = [0b001u32, 0b011, 0b010, 0b110, 0b100];
        for k in 0..1280u32 {
            let alt = -1200 + 100 * k as i32;
            let g = k / 5;
            let r = (k % 5) as usize;
            let gray = g ^ (g >> 1); // 8 bits: D2 D4 A1 A2 A4 B1 B2 B4
            let c = if g % 2 == 0 { cseq[r] } else { cseq[4 - r] };
            let idx = (gray << 3) | c;
            assert!(table[idx as usize].is_none());
            table[idx as usize] = Some(alt);
        }
        Self { table }
    }

    /// Pulses given individually.
    #[allow(clippy::too_many_arguments)]
    pub fn lookup(&self, p: &Pulses) -> Option<i32> {
        if p.d1 != 0 {
            return None;
        }
        let gray = (p.d2 << 7) | (p.d4 << 6) | (p.a1 << 5) | (p.a2 << 4) | (p.a4 << 3) | (p.b1 << 2) | (p.b2 << 1) | p.b4;
        let c = (p.c1 << 2) | (p.c2 << 1) | p.c4;
        self.table[((gray << 3) | c) as usize]
    }

    pub fn entries(&self) -> usize {
        self.table.iter().filter(|e| e.is_some()).count()
    }
}

#[derive(Default, Clone, Copy, Debug)]
pub struct Pulses {
    pub a1: u32, pub a2: u32, pub a4: u32,
    pub b1: u32, pub b2: u32, pub b4: u32,
    pub c1: u32, pub c2: u32, pub c4: u32,
    pub d1: u32, pub d2: u32, pub d4: u32,
}

/// Pulses of a 13-bit field in the order C1 A1 C2 A2 C4 A4 X B1 D1 B2 D2 B4 D4.
pub fn pulses13(code: u32) -> (Pulses, u32) {
    let b = |i: u32| (code >> (13 - i)) & 1; // i = 1..13, MSB first
    (
        Pulses {
            c1: b(1), a1: b(2), c2: b(3), a2: b(4), c4: b(5), a4: b(6),
            b1: b(8), d1: b(9), b2: b(10), d2: b(11), b4: b(12), d4: b(13),
        },
        b(7),
    )
}

/// 13-bit AC field -> altitude in feet if the code denotes one that is a
/// positive number representable in 16 bits; None otherwise ("no altitude").
pub fn ac13(g: &Gillham, code: u32) -> Option<u32> {
    let code = code & 0x1FFF;
    if code == 0 {
        return None;
    }
    let (p, m) = pulses13(code);
    if m == 1 {
        return None; // metric
    }
    let q = p.d1; // bit 9 of the field doubles as Q
    let alt: i64 = if q == 1 {
        // N = the 11 bits left after removing M (bit 7) and Q (bit 9)
        let n = ((code >> 7) << 5) | (((code >> 5) & 1) << 4) | (code & 0xF);
        25 * i64::from(n) - 1000
    } else {
        match g.lookup(&p) {
            Some(a) => i64::from(a),
            None => return None,
        }
    };
    if (1..=65535).contains(&alt) { Some(alt as u32) } else { None }
}

/// Raw altitude (feet, possibly negative / large) of a 13-bit code, for tests.
pub fn ac13_raw(g: &Gillham, code: u32) -> Option<i64> {
    let code = code & 0x1FFF;
    if code == 0 { return None; }
    let (p, m) = pulses13(code);
    if m == 1 { return None; }
    if p.d1 == 1 {
        let n = ((code >> 7) << 5) | (((code >> 5) & 1) << 4) | (code & 0xF);
        Some(25 * i64::from(n) - 1000)
    } else {
        g.lookup(&p).map(i64::from)
    }
}

/// 12-bit code of airborne position messages: the 13-bit field without M.
pub fn ac12(g: &Gillham, code: u32) -> Option<u32> {
    let code = code & 0xFFF;
    if code == 0 {
        return None;
    }
    // re-insert M = 0 between bit 6 and bit 7
    let code13 = ((code >> 6) << 7) | (code & 0x3F);
    ac13(g, code13)
}

/// Four octal digits A B C D of a 13-bit identity code, hex-coded (0xABCD).
pub fn squawk(code: u32) -> u32 {
    let (p, _x) = pulses13(code & 0x1FFF);
    let a = (p.a4 << 2) | (p.a2 << 1) | p.a1;
    let b = (p.b4 << 2) | (p.b2 << 1) | p.b1;
    let c = (p.c4 << 2) | (p.c2 << 1) | p.c1;
    let d = (p.d4 << 2) | (p.d2 << 1) | p.d1;
    (a << 12) | (b << 8) | (c << 4) | d
}

/// Inverse of `squawk` (X bit 0), for encoders.
pub fn squawk_encode(abcd: u32) -> u32 {
    let a = (abcd >> 12) & 7; let b = (abcd >> 8) & 7; let c = (abcd >> 4) & 7; let d = abcd & 7;
    let bit = |v: u32, k: u32| (v >> k) & 1;
    // C1 A1 C2 A2 C4 A4 X B1 D1 B2 D2 B4 D4
    let seq = [bit(c,0), bit(a,0), bit(c,1), bit(a,1), bit(c,2), bit(a,2), 0, bit(b,0), bit(d,0), bit(b,1), bit(d,1), bit(b,2), bit(d,2)];
    seq.iter().fold(0, |acc, &x| (acc << 1) | x)
}

/// Annex 10 6-bit character set (3.1.2.9.1.2): 1-26 A-Z, 32 space, 48-57 digits.
pub fn ident_char(c: u8) -> char {
    match c {
        1..=26 => (b'A' + c - 1) as char,
        32 => ' ',
        48..=57 => (b'0' + c - 48) as char,
        _ => '#',
    }
}

/// The eight characters in order, unassigned codes as '#', spaces kept.
pub fn ident_raw(chars: &[u8; 8]) -> String {
    chars.iter().map(|&c| ident_char(c)).collect()
}

/// Accepted presentations of "space padding removed": every space removed, or
/// only leading/trailing spaces removed (DESIGN §3).
pub fn ident_accepts(chars: &[u8; 8], got: &str) -> bool {
    let raw = ident_raw(chars);
    let all: String = raw.chars().filter(|&c| c != ' ').collect();
    got == all || got == raw.trim_matches(' ')
}
