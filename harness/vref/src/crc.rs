//! Mode S parity: bit-serial polynomial division, no table.
//!
//! Generator G(x) = x^24 + x^23 + ... + x^10 + x^3 + 1, written 0x1FFF409 with
//! its 25 coefficients.  The syndrome of an n-bit frame is
//!     (first n-24 bits, followed by 24 zero bits) mod G   XOR   last 24 bits.

pub const GENERATOR: u32 = 0x1FF_F409;

/// Remainder of (data bits of `msg[..nbits-24]`) * x^24 modulo G.
pub fn parity(msg: &[u8], nbits: usize) -> u32 {
    let data_bits = nbits - 24;
    let mut rem: u32 = 0; // 24-bit register
    for i in 0..data_bits {
        let bit = u32::from((msg[i / 8] >> (7 - (i % 8))) & 1);
        let top = (rem >> 23) & 1;
        rem = (rem << 1) & 0xFF_FFFF;
        if top ^ bit != 0 {
            rem ^= GENERATOR & 0xFF_FFFF;
        }
    }
    rem
}

/// Syndrome of the first `nbits` bits of msg (nbits = 56 or 112).
pub fn syndrome(msg: &[u8], nbits: usize) -> u32 {
    let n = nbits / 8;
    let last = (u32::from(msg[n - 3]) << 16) | (u32::from(msg[n - 2]) << 8) | u32::from(msg[n - 1]);
    parity(msg, nbits) ^ last
}

/// Second, independently coded implementation (byte table generated from the
/// polynomial at run time) used only by the oracle self-check.
pub fn syndrome_table(msg: &[u8], nbits: usize) -> u32 {
    let mut table = [0u32; 256];
    for (i, t) in table.iter_mut().enumerate() {
        let mut c = (i as u32) << 16;
        for _ in 0..8 {
            if c & 0x80_0000 != 0 {
                c = (c << 1) ^ GENERATOR;
            } else {
                c <<= 1;
            }
        }
        *t = c & 0xFF_FFFF;
    }
    let n = nbits / 8;
    let mut rem = 0u32;
    for &b in &msg[..n - 3] {
        rem = ((rem << 8) ^ table[(u32::from(b) ^ (rem >> 16)) as usize & 0xFF]) & 0xFF_FFFF;
    }
    let last = (u32::from(msg[n - 3]) << 16) | (u32::from(msg[n - 2]) << 8) | u32::from(msg[n - 1]);
    rem ^ last
}

/// Overwrite the last 24 bits of the frame so that its syndrome equals `want`
/// (0 for a valid squitter, the interrogator code for DF11, the address for AP).
pub fn seal(msg: &mut [u8], nbits: usize, want: u32) {
    let n = nbits / 8;
    let p = parity(msg, nbits) ^ want;
    msg[n - 3] = (p >> 16) as u8;
    msg[n - 2] = (p >> 8) as u8;
    msg[n - 1] = p as u8;
}
