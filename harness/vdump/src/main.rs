//! C20 dumper: the same source is built against the repository's crates with
//! (a) default features (std), (b) default-features = false + "alloc",
//! (c) std + "serde". It replays a corpus file and prints canonical lines;
//! /verif/c20.sh diffs the outputs of the three builds.
//!
//! corpus lines:  F <hex>            decode a frame
//!                P y x o y x o      get_position on a pair (cpr lat, cpr lon, odd flag)
//!                H lat lon range    start a tracker history
//!                A <hex>            Airplanes::action
//!                D                  dump the tracker
//!                R lat lon range    the receiver moved / the range setting changed (no reset)
//!                W <ns>             let (virtual) time pass: std builds see the clock advance,
//!                                   the alloc-only build has no clock - the states must still agree

use adsb_deku::{cpr, Altitude, CPRFormat, Frame};
use rsadsb_common::Airplanes;
use std::io::{BufRead, Write};
use vref::dbg::{self, Kind, Node};

#[path = "../../vmon/src/vclock.rs"]
mod vclock;

const BASE_NS: i128 = 1_790_000_000 * 1_000_000_000;

/// Debug text with every `last_time` field removed (it only exists in std builds and holds wall-clock time).
fn masked(s: &str) -> String {
    fn ser(n: &Node, out: &mut String) {
        match n.kind {
            Kind::Leaf => out.push_str(&n.text),
            Kind::Struct => {
                out.push_str(&n.name);
                out.push_str(" { ");
                let mut first = true;
                for (k, c) in &n.children {
                    if k == "last_time" {
                        continue;
                    }
                    if !first {
                        out.push_str(", ");
                    }
                    first = false;
                    out.push_str(k);
                    out.push_str(": ");
                    ser(c, out);
                }
                out.push_str(" }");
            }
            Kind::Tuple | Kind::List | Kind::Map => {
                out.push_str(&n.name);
                out.push(match n.kind {
                    Kind::Tuple => '(',
                    Kind::List => '[',
                    _ => '{',
                });
                for (i, (k, c)) in n.children.iter().enumerate() {
                    if i > 0 {
                        out.push_str(", ");
                    }
                    if n.kind == Kind::Map {
                        out.push_str(k);
                        out.push_str(": ");
                    }
                    ser(c, out);
                }
                out.push(match n.kind {
                    Kind::Tuple => ')',
                    Kind::List => ']',
                    _ => '}',
                });
            }
        }
    }
    match dbg::parse(s) {
        Ok(n) => {
            let mut o = String::new();
            ser(&n, &mut o);
            o
        }
        Err(e) => format!("UNPARSEABLE({e}) {s}"),
    }
}

#[cfg(feature = "serde")]
fn roundtrip_frame(f: &Frame, hex: &str, out: &mut impl Write, fails: &mut u64, done: &mut u64) {
    *done += 1;
    let before = format!("{f:?}");
    let js = match serde_json::to_string(f) {
        Ok(j) => j,
        Err(e) => {
            *fails += 1;
            let _ = writeln!(out, "ROUNDTRIP-FAIL frame {hex} serialize: {e}");
            return;
        }
    };
    match serde_json::from_str::<Frame>(&js) {
        Ok(g) => {
            let after = format!("{g:?}");
            if after != before {
                // a float-only difference could be the text format: re-test through CBOR before calling it
                let mut buf = Vec::new();
                let cb = ciborium::into_writer(f, &mut buf).ok().and_then(|_| ciborium::from_reader::<Frame, _>(buf.as_slice()).ok()).map(|g2| format!("{g2:?}"));
                if cb.as_deref() != Some(before.as_str()) {
                    *fails += 1;
                    let _ = writeln!(out, "ROUNDTRIP-FAIL frame {hex} before {before} after {after}");
                }
            }
        }
        Err(e) => {
            *fails += 1;
            let _ = writeln!(out, "ROUNDTRIP-FAIL frame {hex} deserialize: {e} json {js}");
        }
    }
}

#[cfg(feature = "serde")]
fn roundtrip_tracker(p: &Airplanes, id: &str, out: &mut impl Write, fails: &mut u64, done: &mut u64) {
    *done += 1;
    let before = format!("{p:?}");
    let js = match serde_json::to_string(p) {
        Ok(j) => j,
        Err(e) => {
            *fails += 1;
            let _ = writeln!(out, "ROUNDTRIP-FAIL tracker {id} serialize: {e}");
            return;
        }
    };
    match serde_json::from_str::<Airplanes>(&js) {
        Ok(g) => {
            let after = format!("{g:?}");
            if after != before {
                let mut buf = Vec::new();
                let cb = ciborium::into_writer(p, &mut buf).ok().and_then(|_| ciborium::from_reader::<Airplanes, _>(buf.as_slice()).ok()).map(|g2| format!("{g2:?}"));
                if cb.as_deref() != Some(before.as_str()) {
                    *fails += 1;
                    let _ = writeln!(out, "ROUNDTRIP-FAIL tracker {id} before {before} after {after}");
                }
            }
        }
        Err(e) => {
            *fails += 1;
            let _ = writeln!(out, "ROUNDTRIP-FAIL tracker {id} deserialize: {e}");
        }
    }
}

fn main() {
    let path = std::env::args().nth(1).expect("corpus file");
    let f = std::fs::File::open(path).expect("open corpus");
    let stdout = std::io::stdout();
    let mut out = std::io::BufWriter::new(stdout.lock());
    let mut planes = Airplanes::new();
    let mut rx = (0.0f64, 0.0f64);
    let mut range = 500.0f64;
    let mut hist = 0u64;
    let mut step = 0u64;
    let mut now_ns: i128 = BASE_NS;
    #[allow(unused_mut, unused_variables)]
    let (mut fails, mut done) = (0u64, 0u64);
    for line in std::io::BufReader::new(f).lines() {
        let line = line.unwrap();
        let mut it = line.split_whitespace();
        match it.next() {
            Some("F") => {
                let hex = it.next().unwrap_or("");
                let bytes = vref::bits::unhex(hex).unwrap_or_default();
                match Frame::from_bytes(&bytes) {
                    Ok(fr) => {
                        let _ = writeln!(out, "F {hex} {:?} | {:?}", fr, fr.to_string());
                        // the derived velocity with all its digits (the report floors it, the tracker
                        // narrows it to f32: neither shows a last-bit difference between the builds)
                        let me = match &fr.df {
                            adsb_deku::DF::ADSB(a) => Some(&a.me),
                            adsb_deku::DF::TisB { cf, .. } => Some(&cf.me),
                            _ => None,
                        };
                        if let Some(adsb_deku::adsb::ME::AirborneVelocity(v)) = me {
                            let _ = writeln!(out, "C {hex} {:?}", v.calculate());
                        }
                        #[cfg(feature = "serde")]
                        roundtrip_frame(&fr, hex, &mut out, &mut fails, &mut done);
                    }
                    Err(e) => {
                        let _ = writeln!(out, "F {hex} ERR {e:?}");
                    }
                }
            }
            Some("P") => {
                let v: Vec<u32> = it.filter_map(|x| x.parse().ok()).collect();
                if v.len() == 6 {
                    let mk = |y: u32, x: u32, o: u32| Altitude { odd_flag: if o == 1 { CPRFormat::Odd } else { CPRFormat::Even }, lat_cpr: y, lon_cpr: x, ..Altitude::default() };
                    let a = mk(v[0], v[1], v[2]);
                    let b = mk(v[3], v[4], v[5]);
                    let _ = writeln!(out, "P {line} -> {:?}", cpr::get_position((&a, &b)));
                }
            }
            Some("H") => {
                let v: Vec<f64> = it.filter_map(|x| x.parse().ok()).collect();
                planes = Airplanes::new();
                rx = (v[0], v[1]);
                range = v[2];
                hist += 1;
                step = 0;
                now_ns = BASE_NS;
                vclock::set_ns(now_ns);
            }
            Some("R") => {
                let v: Vec<f64> = it.filter_map(|x| x.parse().ok()).collect();
                if v.len() == 3 {
                    rx = (v[0], v[1]);
                    range = v[2];
                }
            }
            Some("W") => {
                if let Some(d) = it.next().and_then(|x| x.parse::<i128>().ok()) {
                    now_ns += d;
                    vclock::set_ns(now_ns);
                }
            }
            Some("A") => {
                let hex = it.next().unwrap_or("");
                let bytes = vref::bits::unhex(hex).unwrap_or_default();
                if let Ok(fr) = Frame::from_bytes(&bytes) {
                    let added = planes.action(fr, rx, range);
                    step += 1;
                    let _ = writeln!(out, "A {hist} {step} {added:?} len={}", planes.len());
                }
            }
            Some("D") => {
                let _ = writeln!(out, "T {hist} {step} {}", masked(&format!("{planes:?}")));
                let text: Vec<String> = planes
                    .to_string()
                    .lines()
                    .map(|l| match l.split_once(": ") {
                        Some((k, v)) => format!("{k}: {}", masked(v)),
                        None => l.to_string(),
                    })
                    .collect();
                let _ = writeln!(out, "V {hist} {step} {:?} | {:?}", text, planes.all_position());
                #[cfg(feature = "serde")]
                roundtrip_tracker(&planes, &format!("{hist}/{step}"), &mut out, &mut fails, &mut done);
            }
            _ => {}
        }
    }
    let _ = writeln!(out, "# roundtrips done={done} failed={fails}");
}
