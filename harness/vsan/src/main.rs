//! vsan — the workload run under the sanitizer tiers (Miri, AddressSanitizer,
//! valgrind memcheck). Single threaded, no allocator/clock tricks, no libc
//! calls: everything here is plain safe Rust driving the repository's public
//! API, so any report comes from code the decoder reaches (deku / bitvec
//! `unsafe`), not from the harness.
//!
//!   vsan frames <seed> <shard> <nshards> <per_class> [stride]   decode+Debug+Display+calculate+pairing+tracker
//!   vsan reader <seed> <shard> <nshards> <per_class>    from_reader under hostile schedules

#[path = "../../vmon/src/gen.rs"]
#[allow(dead_code)]
mod gen;

use adsb_deku::adsb::ME;
use adsb_deku::{cpr, Altitude, Frame, DF};
use rsadsb_common::Airplanes;
use std::io::{self, Read, Seek, SeekFrom};
use vref::rng::Rng;

struct Hostile<'a> {
    data: &'a [u8],
    pos: usize,
    chunk: usize,
    interrupt_every: usize,
    calls: usize,
}
impl Read for Hostile<'_> {
    fn read(&mut self, buf: &mut [u8]) -> io::Result<usize> {
        self.calls += 1;
        if self.interrupt_every > 0 && self.calls % self.interrupt_every == 0 {
            return Err(io::Error::new(io::ErrorKind::Interrupted, "injected"));
        }
        let k = buf.len().min(self.chunk).min(self.data.len().saturating_sub(self.pos));
        buf[..k].copy_from_slice(&self.data[self.pos..self.pos + k]);
        self.pos += k;
        Ok(k)
    }
}
impl Seek for Hostile<'_> {
    fn seek(&mut self, p: SeekFrom) -> io::Result<u64> {
        let n = match p {
            SeekFrom::Start(x) => x as i64,
            SeekFrom::Current(d) => self.pos as i64 + d,
            SeekFrom::End(d) => self.data.len() as i64 + d,
        };
        if n < 0 {
            return Err(io::Error::new(io::ErrorKind::InvalidInput, "seek"));
        }
        self.pos = n as usize;
        Ok(n as u64)
    }
}

fn position_of(f: &Frame) -> Option<Altitude> {
    let m = match &f.df {
        DF::ADSB(a) => &a.me,
        DF::TisB { cf, .. } => &cf.me,
        _ => return None,
    };
    match m {
        ME::AirbornePositionBaroAltitude(a) | ME::AirbornePositionGNSSAltitude(a) => Some(*a),
        _ => None,
    }
}

fn main() {
    let a: Vec<String> = std::env::args().collect();
    let mode = a.get(1).map(String::as_str).unwrap_or("frames");
    let seed: u64 = a.get(2).and_then(|s| s.parse().ok()).unwrap_or(1);
    let shard: usize = a.get(3).and_then(|s| s.parse().ok()).unwrap_or(0);
    let nshards: usize = a.get(4).and_then(|s| s.parse().ok()).unwrap_or(1);
    let per: usize = a.get(5).and_then(|s| s.parse().ok()).unwrap_or(1);
    // only every `stride`-th class (the slow interpreters cannot afford all of them)
    let stride: usize = a.get(6).and_then(|s| s.parse().ok()).unwrap_or(1).max(1);
    let classes = gen::all_classes();
    let mut ok = 0u64;
    let mut err = 0u64;
    let mut ops = 0u64;
    let mut mismatches = 0u64;
    let mut pool: Vec<Altitude> = Vec::new();
    let mut planes = Airplanes::new();
    for (ci, cs) in classes.iter().enumerate() {
        if ci % stride != 0 || (ci / stride) % nshards != shard {
            continue;
        }
        let mut r = Rng::derive(seed, "vsan", ci as u64);
        for k in 0..per {
            let mut bytes = cs.make(&mut r);
            // hostile lengths: truncated, over-long, empty
            match (k + ci) % 7 {
                0 => bytes.truncate(r.below(bytes.len() as u64) as usize),
                1 => bytes.extend([0xAA; 5]),
                _ => {}
            }
            let base = Frame::from_bytes(&bytes);
            ops += 1;
            if mode == "reader" {
                for (chunk, ie) in [(1usize, 0usize), (2, 0), (usize::MAX, 2), (1, 3), (3, 5)] {
                    let mut h = Hostile { data: &bytes, pos: 0, chunk, interrupt_every: ie, calls: 0 };
                    let got = Frame::from_reader(&mut h);
                    ops += 1;
                    let same = match (&base, &got) {
                        (Ok(x), Ok(y)) => format!("{x:?}") == format!("{y:?}"),
                        (Err(_), Err(_)) => true,
                        _ => false,
                    };
                    if !same {
                        mismatches += 1;
                        println!("MISMATCH reader chunk={chunk} interrupt_every={ie} bytes={}", vref::bits::hex(&bytes));
                    }
                }
            }
            match base {
                Ok(f) => {
                    ok += 1;
                    let d = format!("{f:?}");
                    let t = f.to_string();
                    std::hint::black_box((&d, &t));
                    if let Some(alt) = position_of(&f) {
                        for b in &pool {
                            std::hint::black_box(cpr::get_position((&alt, b)));
                            std::hint::black_box(cpr::get_position((b, &alt)));
                            ops += 2;
                        }
                        if pool.len() < 6 {
                            pool.push(alt);
                        } else {
                            let i = r.below(6) as usize;
                            pool[i] = alt;
                        }
                    }
                    if let DF::ADSB(a) = &f.df {
                        if let ME::AirborneVelocity(v) = &a.me {
                            std::hint::black_box(v.calculate());
                        }
                    }
                    let _ = planes.action(f, (52.0, 4.0), 500.0);
                    ops += 1;
                }
                Err(_) => err += 1,
            }
        }
    }
    std::hint::black_box(planes.to_string());
    std::hint::black_box(planes.all_position());
    println!("vsan mode={mode} seed={seed} shard={shard}/{nshards} decodes_ok={ok} decodes_err={err} operations={ops} mismatches={mismatches}");
    if mismatches > 0 {
        std::process::exit(1);
    }
}
