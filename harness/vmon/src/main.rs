//! vmon — runtime monitors for rsadsb/adsb_deku. One sub-command per property.
//! Links the crates of the repository under test (path dependencies) and judges
//! executions of the real code against the reference model in `vref`.

mod logsub;
mod collect;
mod cprp;
mod dec;
mod feedsim;
mod gen;
mod mon;
mod obs;
mod rdr;
mod run;
mod trk;
mod vclock;

use std::path::PathBuf;

#[global_allocator]
static ALLOC: mon::CountingAlloc = mon::CountingAlloc;

/// Class label of a byte string according to the reference model (for signatures).
pub fn obs_class(g: &vref::altitude::Gillham, bytes: &[u8]) -> String {
    vref::expect::expect(g, bytes).class
}

fn main() {
    let args: Vec<String> = std::env::args().collect();
    if args.len() < 2 {
        eprintln!("usage: vmon <selfcheck|C01..C20> [--tier quick|thorough] [--seed N] [--repo PATH] [--verif PATH]");
        std::process::exit(2);
    }
    let get = |name: &str| -> Option<String> {
        let mut it = args.iter();
        while let Some(a) = it.next() {
            if a == name {
                return it.next().cloned();
            }
        }
        None
    };
    let cmd = args[1].clone();
    let tier = get("--tier").or_else(|| std::env::var("VERIF_TIER").ok()).unwrap_or_else(|| "quick".into());
    let seed: u64 = get("--seed").or_else(|| std::env::var("VERIF_SEED").ok()).and_then(|s| s.parse().ok()).unwrap_or(1);
    let repo = get("--repo").unwrap_or_else(|| "/repo".into());
    let verif = PathBuf::from(get("--verif").unwrap_or_else(|| "/verif".into()));
    let threads: usize = get("--threads").and_then(|s| s.parse().ok()).unwrap_or_else(|| std::thread::available_parallelism().map_or(8, |n| n.get()));

    if cmd == "feedsim" {
        std::process::exit(feedsim::run(&args));
    }
    if cmd == "render" {
        // what a line-by-line client prints for well-formed frames: the library's own rendering
        // (JSON array, one entry per hex line of --hex-file: text or null when it does not decode)
        let path = get("--hex-file").unwrap_or_default();
        let txt = std::fs::read_to_string(&path).unwrap_or_default();
        let out: Vec<serde_json::Value> = txt
            .lines()
            .map(|l| match vref::bits::unhex(l.trim()) {
                Some(b) if !b.is_empty() && !b.iter().all(|x| *x == 0) => match adsb_deku::Frame::from_bytes(&b) {
                    Ok(f) => serde_json::Value::String(f.to_string()),
                    Err(_) => serde_json::Value::Null,
                },
                _ => serde_json::Value::Null,
            })
            .collect();
        println!("{}", serde_json::Value::Array(out));
        std::process::exit(0);
    }
    if cmd == "selfcheck" {
        match vref::selfcheck::run() {
            Ok(notes) => {
                for n in notes {
                    println!("selfcheck: {n}");
                }
                std::process::exit(0);
            }
            Err(e) => {
                println!("INCONCLUSIVE oracle self-validation failed: {e}");
                std::process::exit(2);
            }
        }
    }
    // the oracle must validate before anything is judged
    if let Err(e) = vref::selfcheck::run() {
        println!("INCONCLUSIVE oracle self-validation failed: {e}");
        std::process::exit(2);
    }
    mon::install_panic_hook();
    let prop = cmd.to_uppercase();
    let replay_dir = verif.join("replay").join(&prop);
    let rd2 = replay_dir.clone();
    let prop2 = prop.clone();
    let ev_path = verif.join("evidence").join(format!("{prop}.json"));
    let (tier2, seed2) = (tier.clone(), seed);
    // one watched operation is one decode / one tracker step for the decoder checks, but one whole
    // history (up to tens of thousands of steps, each followed by a snapshot of the tracker) for
    // C12-C15: there the limit is per history, and large enough for the longest marathon on a
    // machine that is busy with other work
    let wd_limit = if ["C12", "C13", "C14", "C15"].contains(&prop.as_str()) { 900.0 } else { 20.0 };
    let wd = mon::Watchdog::start(wd_limit, move |what| {
        let _ = std::fs::create_dir_all(&rd2);
        let p = rd2.join("hang.json");
        let _ = std::fs::write(&p, format!("{{\"property\":\"C01\",\"signature\":\"C01|hang\",\"input\":{what:?}}}"));
        // a hang is a violation of totality (C01); it also stops whatever check was running, which
        // therefore reports it under its own id (the run cannot complete)
        println!("VIOLATION property={} replay={}", prop2, p.display());
        println!("  signature: C01|hang");
        println!("  one operation consumed more than {wd_limit} s of CPU time without returning: {what}");
        // the run ends here: leave an evidence file that says so
        let ev = serde_json::json!({
            "property_id": prop2, "tier": tier2, "seed": seed2, "level": "exploration",
            "coverage": {"evaluations": 1, "distinct_nontrivial": 2, "rule": "run aborted by the CPU-time watchdog: one operation did not return within its CPU-time limit (20 s per decoder operation, 900 s per tracker history); counts of the aborted run are not available", "samples": [what], "aborted_by_watchdog": true},
            "assumptions": [], "wall_s": 0.0, "violations": 1});
        if let Some(d) = ev_path.parent() {
            let _ = std::fs::create_dir_all(d);
        }
        let _ = std::fs::write(&ev_path, serde_json::to_string_pretty(&ev).unwrap());
        std::process::exit(1);
    });
    let ctx = run::Ctx { prop: prop.clone(), tier, seed, repo, verif, threads, g: vref::altitude::Gillham::new(), wd, start: std::time::Instant::now(), args: args.clone(), lite: std::sync::atomic::AtomicBool::new(false), salt: std::sync::atomic::AtomicU64::new(0) };
    let _ = std::fs::remove_dir_all(&replay_dir);
    if prop == "GEN-C20" {
        let out = get("--out").expect("--out");
        match trk::gen_c20_corpus(&ctx, &out) {
            Ok((f, p, h)) => {
                println!("corpus frames={f} pairs={p} histories={h}");
                std::process::exit(0);
            }
            Err(e) => {
                println!("INCONCLUSIVE cannot write corpus: {e}");
                std::process::exit(2);
            }
        }
    }
    let code = match prop.as_str() {
        "C01" | "C02" | "C03" | "C04" | "C06" | "C07" | "C08" | "C09" | "C10" | "C11" => dec::run(&ctx),
        "C19" => rdr::run(&ctx),
        "C05" => cprp::run(&ctx),
        "C12" | "C13" | "C14" | "C15" => trk::run(&ctx),
        other => {
            eprintln!("unknown command {other}");
            2
        }
    };
    std::process::exit(code);
}
