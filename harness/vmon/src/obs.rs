//! Observation of one decode of the real library and its judgement against
//! the reference expectation (all frame-level clauses of C01-C04, C06-C11).

use crate::collect::{Collector, Finding};
use crate::mon::{self, AllocStats};
use adsb_deku::adsb::ME;
use adsb_deku::{Frame, DF};
use serde_json::json;
use vref::altitude::{ident_accepts, Gillham};
use vref::bits::{hex, me};
use vref::dbg::{self, Node};
use vref::expect::{self, Expectation, Verdict, Want};
use vref::render;
use vref::velocity;

/// Fixed limits (DESIGN §2.3), far above the measured baseline (<=45 calls, <=300 B, <=160 B peak).
pub const MAX_ALLOC_CALLS: u64 = 512;
pub const MAX_ALLOC_BYTES: u64 = 8 * 1024;
pub const MAX_ALLOC_PEAK: u64 = 2 * 1024;

pub enum Res {
    Ok(Box<OkObs>),
    Err(String),
    Panic { stage: &'static str, loc: String, msg: String },
}

pub struct OkObs {
    pub frame: Frame,
    pub debug: String,
    pub tree: Option<Node>,
    pub display: Option<String>,
    pub crc: u32,
    pub calc: Option<render::Calc>,
    /// panics of Display / calculate() on this frame: (stage, location, message)
    pub op_panics: Vec<(&'static str, String, String)>,
}

pub struct Obs {
    pub res: Res,
    pub alloc: AllocStats,
}

pub fn calc_of(frame: &Frame) -> Option<render::Calc> {
    let m = match &frame.df {
        DF::ADSB(a) => &a.me,
        DF::TisB { cf, .. } => &cf.me,
        _ => return None,
    };
    if let ME::AirborneVelocity(v) = m {
        Some(v.calculate())
    } else {
        None
    }
}

/// Decode `bytes` with the real library under the panic and allocation monitors,
/// then exercise Debug, Display and calculate() on the result.
pub fn observe(bytes: &[u8]) -> Obs {
    let (r, alloc) = mon::count_allocs(|| mon::guarded(|| Frame::from_bytes(bytes)));
    let frame = match r {
        Err((loc, msg)) => return Obs { res: Res::Panic { stage: "from_bytes", loc, msg }, alloc },
        Ok(Err(e)) => return Obs { res: Res::Err(format!("{e:?}")), alloc },
        Ok(Ok(f)) => f,
    };
    let debug = match mon::guarded(|| format!("{frame:?}")) {
        Ok(s) => s,
        Err((loc, msg)) => return Obs { res: Res::Panic { stage: "debug", loc, msg }, alloc },
    };
    // a panic in an operation on the decoded frame is recorded, the other observations still count
    let mut op_panics = Vec::new();
    let display = match mon::guarded(|| frame.to_string()) {
        Ok(s) => Some(s),
        Err((loc, msg)) => {
            op_panics.push(("display", loc, msg));
            None
        }
    };
    let calc = match mon::guarded(|| calc_of(&frame)) {
        Ok(c) => c,
        Err((loc, msg)) => {
            op_panics.push(("calculate", loc, msg));
            None
        }
    };
    let tree = dbg::parse(&debug).ok();
    let crc = frame.crc;
    Obs { res: Res::Ok(Box::new(OkObs { frame, debug, tree, display, crc, calc, op_panics })), alloc }
}

fn ulps_f32(a: f32, b: f32) -> u32 {
    if a == b {
        return 0;
    }
    if a.is_nan() || b.is_nan() {
        return u32::MAX;
    }
    let (ia, ib) = (a.to_bits() as i32, b.to_bits() as i32);
    let (ia, ib) = (if ia < 0 { i32::MIN - ia } else { ia }, if ib < 0 { i32::MIN - ib } else { ib });
    (i64::from(ia) - i64::from(ib)).unsigned_abs().min(u64::from(u32::MAX)) as u32
}

pub struct JudgeCtx<'a> {
    pub g: &'a Gillham,
    /// only build findings for these properties (empty = all)
    pub col: &'a mut Collector,
}

fn finding(prop: &str, clause: &str, class: &str, detail: String, bytes: &[u8]) -> Finding {
    Finding { prop: prop.to_string(), sig: format!("{prop}|{clause}|{class}"), detail, input: json!({"frame_hex": hex(bytes)}) }
}

/// Compare normalised renderings: exact, or equal after stripping leading zeros of the
/// hex address in "ICAO Address:" lines of the Comm-B / DF24-31 reports (DESIGN C11).
fn render_equal(want: &str, got: &str) -> bool {
    if want == got {
        return true;
    }
    // only the reports whose address no example pins with fewer than six digits and that the
    // code prints unpadded today; everywhere else the six-digit form is part of the template
    let lenient = [" Comm-B, Altitude Reply", " Comm-B, Identity Reply", " Mode S Extended Squitter Message"];
    if !lenient.iter().any(|h| want.starts_with(h)) {
        return false;
    }
    let norm = |s: &str| -> String {
        s.lines()
            .map(|l| {
                if let Some(i) = l.find("ICAO Address:") {
                    let (head, tail) = l.split_at(i + 13);
                    let t = tail.trim_start();
                    let pad = &tail[..tail.len() - t.len()];
                    let t2 = t.trim_start_matches('0');
                    let t2 = if t2.starts_with(' ') || t2.is_empty() { format!("0{t2}") } else { t2.to_string() };
                    format!("{head}{pad}{t2}")
                } else {
                    l.to_string()
                }
            })
            .collect::<Vec<_>>()
            .join("\n")
    };
    norm(want) == norm(got)
}

/// Compare every interpreted field of `tree` with the expectation; `suffix` is appended to the class.
fn compare_items(col: &mut Collector, exp: &Expectation, tree: &Node, bytes: &[u8], suffix: &str) {
    let class = format!("{}{}", exp.class, suffix);
    let mut failed_names: Vec<String> = Vec::new();
    for it in &exp.items {
        let Some(node) = tree.get(&it.path) else {
            if !failed_names.iter().any(|p| it.path.starts_with(p.as_str())) {
                col.inconclusive(format!("observation path missing: {} ({})", it.path, exp.class));
            }
            continue;
        };
        let (okv, got) = match &it.want {
            Want::Text(t) => (node.text == *t, node.text.clone()),
            Want::Name(n) => (node.name == *n, node.name.clone()),
            Want::F32(v) => match node.text.parse::<f32>() {
                Ok(gv) => (ulps_f32(gv, *v) <= 2, node.text.clone()),
                Err(_) => (false, node.text.clone()),
            },
            Want::Ident(chars) => match node.as_str() {
                Some(s) => (ident_accepts(chars, &s), s),
                None => (false, node.text.clone()),
            },
            Want::AltOpt(a) => {
                let t = node.text.as_str();
                let okv = match a {
                    None => t == "None" || t == "Some(0)",
                    Some(v) => t == format!("Some({v})"),
                };
                (okv, node.text.clone())
            }
        };
        col.count("field_comparisons", 1);
        if !okv {
            if matches!(it.want, Want::Name(_)) {
                failed_names.push(it.path.clone());
            }
            col.add(finding(it.prop, it.clause, &class, format!("{} = {} but frame bits {}..={} say {:?}{}", it.path, got, it.bits.0, it.bits.1, it.want, if suffix.is_empty() { "" } else { " (frame decoded with from_reader from the middle of a stream)" }), bytes));
        }
    }
}

/// Every 8th accepted frame is also decoded with `Frame::from_reader` as the n-th frame of a
/// stream (reader positioned behind a random prefix, more data behind the frame): what the
/// properties say about an accepted frame holds however the bytes reached the decoder.
fn via_reader(col: &mut Collector, exp: &Expectation, ok: &OkObs, bytes: &[u8]) {
    let h = crate::collect::fnv(bytes);
    if h % 8 != 0 {
        return;
    }
    let plen = 1 + (h >> 8) as usize % 29;
    let mut stream: Vec<u8> = (0..plen).map(|i| (h >> (i % 7)) as u8 ^ 0xA5).collect();
    stream.extend_from_slice(bytes);
    if (h >> 40) & 1 == 1 {
        stream.extend_from_slice(&[0x8D, 0x48, 0x40, 0xD6]);
    }
    // a reader that fragments its reads (1..=5 bytes per call), like a socket or a small BufReader
    let chunk = 1 + ((h >> 16) % 5) as usize;
    // ... every fourth of them with a transient `Interrupted` before each read that delivers data
    let sched: Vec<crate::rdr::Step> = if (h >> 24) & 3 == 0 { (0..64).map(|i| if i % 2 == 0 { crate::rdr::Step::Interrupt } else { crate::rdr::Step::Chunk(chunk) }).collect() } else { vec![] };
    let mut cur = crate::rdr::HostileReader::new_at(&stream, plen, sched, chunk);
    col.count("frames_also_decoded_via_reader", 1);
    match mon::guarded(|| Frame::from_reader(&mut cur)) {
        Ok(Ok(f)) => {
            let d = format!("{f:?}");
            if d != ok.debug {
                if let Ok(tree) = dbg::parse(&d) {
                    compare_items(col, exp, &tree, bytes, "/via_reader");
                }
                // whatever the reference does not pin must still not depend on the transport
                col.add(finding("C19", "reader_differs_from_slice", "start_offset", format!("from_reader at stream offset {plen}: {d}; from_bytes: {}", ok.debug), bytes));
            }
        }
        Ok(Err(e)) => {
            // trailing bytes present or not, a frame accepted from a slice is accepted from a reader
            col.add(finding("C02", "rejects_valid", &format!("{}/via_reader", exp.class), format!("from_reader at stream offset {plen} returned Err({e:?}) for a frame from_bytes accepts"), bytes));
        }
        Err((loc, msg)) => col.add(finding("C01", "panic_from_reader", &loc, msg, bytes)),
    }
}

/// Judge one byte string. Returns the expectation and observation for callers
/// that run further differential checks.
pub fn judge(g: &Gillham, col: &mut Collector, bytes: &[u8]) -> (Expectation, Obs) {
    let exp = expect::expect(g, bytes);
    let obs = observe(bytes);
    col.count("frames_judged", 1);
    col.seen(bytes);
    col.max("max_alloc_calls", obs.alloc.calls);
    col.max("max_alloc_bytes", obs.alloc.bytes);
    col.max("max_alloc_peak", obs.alloc.peak);
    if obs.alloc.calls > MAX_ALLOC_CALLS || obs.alloc.bytes > MAX_ALLOC_BYTES || obs.alloc.peak > MAX_ALLOC_PEAK {
        col.add(finding("C01", "alloc_limit", &exp.class, format!("decode allocated {:?} for a {}-byte input", obs.alloc, bytes.len()), bytes));
    }
    if col.samples.len() < 3 {
        let outcome = match &obs.res {
            Res::Ok(ok) => format!("Ok crc={:06x} {}", ok.crc, ok.debug),
            Res::Err(e) => format!("Err({e})"),
            Res::Panic { loc, .. } => format!("panic at {loc}"),
        };
        col.sample(json!({"frame_hex": hex(bytes), "class": exp.class, "expected": format!("{:?}", exp.verdict), "observed": outcome, "fields_compared": exp.items.len()}));
    }
    match &obs.res {
        Res::Panic { stage, loc, msg } => {
            col.add(finding("C01", &format!("panic_{stage}"), loc, format!("{msg} at {loc} (class {})", exp.class), bytes));
            col.class(&format!("{}/panic", exp.class));
        }
        Res::Err(e) => {
            col.class(&format!("{}/err", exp.class));
            // a truncated frame at the end of a stream must be rejected through a reader as well
            if exp.verdict == Verdict::RejectShort && !bytes.is_empty() && crate::collect::fnv(bytes) % 4 == 0 {
                let h = crate::collect::fnv(bytes);
                let plen = 1 + (h >> 8) as usize % 29;
                let mut stream: Vec<u8> = (0..plen).map(|i| (h >> (i % 7)) as u8 ^ 0x3C).collect();
                stream.extend_from_slice(bytes);
                let mut cur = crate::rdr::HostileReader::new_at(&stream, plen, vec![], 1 + ((h >> 16) % 5) as usize);
                col.count("short_buffers_also_decoded_via_reader", 1);
                if let Ok(Ok(f)) = mon::guarded(|| Frame::from_reader(&mut cur)) {
                    col.add(finding("C02", "accepts_invalid", &format!("{}/via_reader/RejectShort", exp.class), format!("a buffer shorter than its format's frame was accepted by from_reader at stream offset {plen}: {f:?}"), bytes));
                }
            }
            if exp.verdict == Verdict::Accept {
                col.add(finding("C02", "rejects_valid", &exp.class, format!("decoder returned Err({e}) for a frame of a supported format and sufficient length"), bytes));
            }
        }
        Res::Ok(ok) => {
            col.class(&format!("{}/ok", exp.class));
            for (stage, loc, msg) in &ok.op_panics {
                col.add(finding("C01", &format!("panic_{stage}"), loc, format!("{msg} at {loc} (class {})", exp.class), bytes));
                if *stage == "display" {
                    col.add(finding("C11", "rendering_panics", &exp.class, format!("Display panicked at {loc}: {msg}"), bytes));
                }
                if *stage == "calculate" {
                    col.add(finding("C07", "calculate_panics", &exp.class, format!("AirborneVelocity::calculate panicked at {loc}: {msg}"), bytes));
                }
            }
            if exp.verdict != Verdict::Accept {
                col.add(finding("C02", "accepts_invalid", &format!("{}/{:?}", exp.class, exp.verdict), format!("decoder accepted a buffer that must be rejected ({:?}); debug {}", exp.verdict, ok.debug), bytes));
                return (exp, obs);
            }
            let Some(tree) = &ok.tree else {
                col.inconclusive("debug output of a frame could not be parsed");
                return (exp, obs);
            };
            compare_items(col, &exp, tree, bytes, "");
            via_reader(col, &exp, ok, bytes);
            // C07: derived velocity
            if let Some(calc) = &ok.calc {
                let st = me(bytes, 6, 8);
                let want = velocity::derive(st, me(bytes, 14, 14), me(bytes, 15, 24), me(bytes, 25, 25), me(bytes, 26, 35), me(bytes, 37, 37), me(bytes, 38, 46));
                col.count("calculate_judged", 1);
                let cls = format!("{}/ew{}ns{}vr{}", exp.class, u8::from(me(bytes, 15, 24) == 0), u8::from(me(bytes, 26, 35) == 0), u8::from(me(bytes, 38, 46) == 0));
                match (calc, want) {
                    (None, None) => {}
                    (Some(c), None) => col.add(finding("C07", "derived_when_no_information", &cls, format!("calculate() = {c:?} although a velocity/rate field is 0 or the subtype carries no ground speed"), bytes)),
                    (None, Some(w)) => col.add(finding("C07", "no_derived_velocity", &cls, format!("calculate() = None, reference {w:?}"), bytes)),
                    (Some((h, s, v)), Some(w)) => {
                        let hw = w.track_deg as f32;
                        let h_ok = (ulps_f32(*h, hw) <= 2 || (f64::from(*h) - w.track_deg).abs() < 1e-4) && *h >= 0.0 && *h < 360.0;
                        // a track that rounds to 360.0 in f32 is accepted as the f32 image of a value just below 360
                        let h_ok = h_ok || (hw >= 360.0 && (*h - 360.0).abs() < 1e-3) ;
                        let s_ok = (s - w.ground_speed_kt).abs() <= 1e-9 * w.ground_speed_kt.max(1.0);
                        let v_ok = i32::from(*v) == w.vrate_fpm;
                        if !h_ok {
                            col.add(finding("C07", "track", &cls, format!("track {h} vs atan2(east {}, north {}) = {}", w.east_kt, w.north_kt, w.track_deg), bytes));
                        }
                        if !s_ok {
                            col.add(finding("C07", "ground_speed", &cls, format!("ground speed {s} vs |({}, {})| = {}", w.east_kt, w.north_kt, w.ground_speed_kt), bytes));
                        }
                        if !v_ok {
                            col.add(finding("C07", "vertical_rate", &cls, format!("vertical rate {v} vs {}", w.vrate_fpm), bytes));
                        }
                    }
                }
            }
            // C11: rendering
            if let Some(disp) = &ok.display {
                col.count("renderings_judged", 1);
                if exp.df != 19 && disp.is_empty() {
                    col.add(finding("C11", "empty_rendering", &exp.class, "empty text for a supported frame type".into(), bytes));
                }
                match render::render(tree, ok.calc.unwrap_or(None)) {
                    Ok(want) => {
                        if !render_equal(&want, disp) {
                            // find first differing line for the signature
                            let wl: Vec<&str> = want.lines().collect();
                            let gl: Vec<&str> = disp.lines().collect();
                            let mut which = String::from("line_count");
                            for i in 0..wl.len().max(gl.len()) {
                                if wl.get(i) != gl.get(i) {
                                    let l = wl.get(i).or(gl.get(i)).unwrap();
                                    which = l.split(':').next().unwrap_or("").trim().replace(' ', "_");
                                    break;
                                }
                            }
                            col.add(finding("C11", &format!("template:{which}"), &exp.class, format!("rendered {disp:?} but template with the frame's own values gives {want:?}"), bytes));
                        }
                    }
                    Err(m) => col.inconclusive(format!("render: observation path missing {} ({})", m.0, exp.class)),
                }
            }
        }
    }
    (exp, obs)
}
