//! C12-C15: histories of real decoded frames fed to the real tracker, compared
//! after every step with the sequential model of `vref::tracker`.

use crate::collect::{Collector, Finding};
use crate::mon;
use crate::run::{par_units, Ctx};
use crate::vclock;
use adsb_deku::{CPRFormat, Frame, ICAO};
use rsadsb_common::{Added, Airplanes};
use serde_json::{json, Value};
use vref::altitude::{self, Gillham};
use vref::bits::{getbits, hex, me, setbits};
use vref::cpr::{self, Cpr};
use vref::encode;
use vref::rng::Rng;
use vref::tracker::{Event, Model, ObsDetails, ObsRec, Payload, Snapshot};
use vref::velocity;

// ------------------------------------------------------------------ observation

fn icao_u32(i: &ICAO) -> u32 {
    (u32::from(i.0[0]) << 16) | (u32::from(i.0[1]) << 8) | u32::from(i.0[2])
}

pub fn snapshot(p: &Airplanes) -> Snapshot {
    snapshot_opt(p, true)
}

/// `views = false` skips the two derived views whose cost grows with the track length
/// (Display, all_position) and reports them as consistent with the record.
pub fn snapshot_opt(p: &Airplanes, views: bool) -> Snapshot {
    let mut s = Snapshot::new();
    let allpos = if views { p.all_position() } else { vec![] };
    let text = if views { p.to_string() } else { String::new() };
    for (k, st) in p.iter() {
        let a = icao_u32(k);
        let mut r = ObsRec { num_messages: u64::from(st.num_messages), callsign: st.callsign.as_ref().map(|c| c.replace(' ', "")), ..ObsRec::default() };
        r.heading = st.heading.map(f64::from);
        r.speed = st.speed.map(f64::from);
        r.vert_speed = st.vert_speed.map(i64::from);
        for slot in st.coords.altitudes.iter().flatten() {
            let v = (slot.lat_cpr, slot.lon_cpr, slot.alt.map(u32::from));
            match slot.odd_flag {
                CPRFormat::Even => r.even = Some(v),
                CPRFormat::Odd => r.odd = Some(v),
            }
        }
        r.position = st.coords.position.map(|q| (q.latitude, q.longitude));
        r.distance = st.coords.kilo_distance;
        if let Some(t) = &st.track {
            r.track = t.iter().filter_map(|c| c.position.map(|q| (q.latitude, q.longitude))).collect();
        }
        let det = p.aircraft_details(*k);
        r.details = det.as_ref().map(|d| ObsDetails { position: (d.position.latitude, d.position.longitude), altitude: u32::from(d.altitude), distance: d.kilo_distance, heading: d.heading.map(f64::from) });
        r.details_track = det.as_ref().map(|d| d.track.as_ref().map_or(vec![], |t| t.iter().filter_map(|c| c.position.map(|q| (q.latitude, q.longitude))).collect()));
        if views {
            r.in_all_position = allpos.iter().find(|(i, _)| i == k).map(|(_, q)| (q.latitude, q.longitude));
            let prefix = format!("{k}: ");
            let line = text.lines().find(|l| l.starts_with(&prefix));
            r.in_display = line.is_some();
            if let (Some(l), Some(d)) = (line, det.as_ref()) {
                // the text view is one line per aircraft with details: address, then the details
                if l[prefix.len()..] != format!("{d:?}") {
                    r.display_mismatch = Some(l.chars().take(300).collect());
                }
            }
            if text.lines().filter(|l| l.starts_with(&prefix)).count() > 1 {
                r.display_mismatch = Some(format!("more than one line for {k}"));
            }
        } else {
            r.in_all_position = r.position;
            r.in_display = r.details.is_some();
        }
        s.insert(a, r);
    }
    if views {
        // the text view as a whole: nothing but those lines, in address order, each ended by a newline
        let mut whole = String::new();
        for (k, _) in p.iter() {
            if let Some(d) = p.aircraft_details(*k) {
                whole += &format!("{k}: {d:?}\n");
            }
        }
        if whole != text {
            if let Some(r) = s.values_mut().next() {
                if r.display_mismatch.is_none() {
                    let extra: String = text.chars().take(120).collect();
                    r.display_mismatch = Some(format!("(the text view as a whole, {} bytes, is not the lines of the aircraft with details, {} bytes; it starts {extra:?})", text.len(), whole.len()));
                }
            }
        }
    }
    s
}

/// What a frame means for the tracker, derived from its bytes by the reference model only.
pub fn event_of(g: &Gillham, m: &[u8]) -> Event {
    let df = getbits(m, 1, 5);
    if (df != 17 && df != 18) || m.len() < 14 {
        return Event::NonEs;
    }
    let addr = getbits(m, 9, 32) as u32;
    let tc = me(m, 1, 5);
    let payload = match tc {
        1..=4 => {
            let mut chars = [0u8; 8];
            for (i, c) in chars.iter_mut().enumerate() {
                *c = me(m, 9 + 6 * i, 14 + 6 * i) as u8;
            }
            Payload::Ident(altitude::ident_raw(&chars).replace(' ', ""))
        }
        9..=18 | 20..=22 => Payload::Position { cpr: Cpr { odd: me(m, 22, 22) == 1, yz: me(m, 23, 39) as u32, xz: me(m, 40, 56) as u32 }, alt: altitude::ac12(g, me(m, 9, 20) as u32) },
        19 => {
            let d = velocity::derive(me(m, 6, 8), me(m, 14, 14), me(m, 15, 24), me(m, 25, 25), me(m, 26, 35), me(m, 37, 37), me(m, 38, 46));
            Payload::Velocity(d.map(|d| (d.track_deg, d.ground_speed_kt, d.vrate_fpm)))
        }
        _ => Payload::Other,
    };
    Event::Es { addr, payload }
}

// ------------------------------------------------------------------ history generation

#[derive(Clone, Debug)]
struct Flight {
    addr: u32,
    lat: f64,
    lon: f64,
    bearing: f64,
    step_km: f64,
    callsigns: Vec<String>,
    next_odd: bool,
    last_pos_frame: Option<Vec<u8>>,
}

#[derive(Clone, Debug)]
pub enum Op {
    Frame(Vec<u8>),
    Advance(i128),
    Prune(u64),
    /// the receiver moved (a gpsd-fed client passes a new position with every frame) and/or the
    /// range setting changed: applies to the frames that follow
    Receiver((f64, f64), f64),
    /// the receiver is put exactly on (kind 0) or exactly opposite (kind 1: the antipode of) the
    /// position the tracker currently publishes for `addr` (taken from the tracker at run time, so
    /// it is bit-exact), with a new range; no effect while that aircraft has no position
    ReceiverRel { addr: u32, kind: u8, range: f64 },
}

pub struct History {
    pub receiver: (f64, f64),
    pub max_range: f64,
    pub ops: Vec<Op>,
    pub kind: &'static str,
}

fn pos_frame(r: &mut Rng, f: &mut Flight, odd: bool, lat: f64, lon: f64) -> Vec<u8> {
    let c = cpr::encode(lat.clamp(-90.0, 90.0), lon, odd);
    let altc = match r.below(10) {
        0 => 0,
        1 => r.below(4096) as u32,
        _ => encode::ac12_q(*r.pick(&[1000i64, 12_000, 35_000, 38_000, 41_025, 50_175, 25])),
    };
    let tc = *r.pick(&[9u8, 11, 12, 18, 20, 22]);
    let mebytes = encode::me_airborne_position(tc, r.below(4) as u8, r.below(2) as u8, altc, r.below(2) as u8, c);
    let df = if r.chance(0.85) { 17 } else { 18 };
    let mut m = encode::long_frame(df, if df == 17 { *r.pick(&[0u8, 1, 4, 5, 6, 7]) } else { r.below(8) as u8 }, f.addr, &mebytes).to_vec();
    if df == 18 && r.chance(0.3) {
        // TIS-B frames are not protected by an address-free parity in the wild: PI != 0
        m[11] ^= r.next() as u8 | 1;
    }
    f.last_pos_frame = Some(m.clone());
    m
}

fn other_es_frame(r: &mut Rng, addr: u32, kind: u64, callsigns: &[String]) -> Vec<u8> {
    let df = if r.chance(0.85) { 17 } else { 18 };
    let h = if df == 17 { *r.pick(&[0u8, 2, 4, 5, 6, 7]) } else { r.below(8) as u8 };
    let mebytes: [u8; 7] = match kind {
        0 => {
            let cs = r.pick(callsigns).clone();
            encode::me_identification(r.range(1, 4) as u8, r.below(8) as u8, &encode::callsign_chars(&cs))
        }
        1 => {
            // velocity with derived values; half of them from a small per-aircraft pool, so that
            // the same track and speed come back with another vertical rate (and vice versa)
            if r.chance(0.5) {
                let j = r.below(3) as u32;
                let ew = 1 + ((addr >> (3 * j)) % 900) as u16;
                let ns = 1 + ((addr >> (5 + j)) % 900) as u16;
                let vr = if r.chance(0.5) { 1 + ((addr >> 7) % 500) as u16 } else { r.range(1, 511) as u16 };
                encode::me_velocity(1 + (j % 2) as u8, r.below(32) as u8, (j & 1) as u8, ew, ((j >> 1) & 1) as u8, ns, r.below(2) as u8, r.below(2) as u8, vr, r.below(2) as u8, r.below(128) as u8)
            } else {
                encode::me_velocity(r.range(1, 2) as u8, r.below(32) as u8, r.below(2) as u8, r.range(1, 1023) as u16, r.below(2) as u8, r.range(1, 1023) as u16, r.below(2) as u8, r.below(2) as u8, r.range(1, 511) as u16, r.below(2) as u8, r.below(128) as u8)
            }
        }
        2 => {
            // velocity report without derived velocity: must not erase or change values
            let st = *r.pick(&[0u8, 1, 2, 3, 4, 5]);
            let (ew, ns, vr) = match r.below(3) {
                0 => (0u16, r.below(1024) as u16, r.below(512) as u16),
                1 => (r.below(1024) as u16, 0u16, r.below(512) as u16),
                _ => (r.below(1024) as u16, r.below(1024) as u16, 0u16),
            };
            encode::me_velocity(st, r.below(32) as u8, r.below(2) as u8, ew, r.below(2) as u8, ns, r.below(2) as u8, r.below(2) as u8, vr, r.below(2) as u8, r.below(128) as u8)
        }
        _ => {
            let mut mebytes = [0u8; 7];
            r.fill(&mut mebytes);
            let tc = *r.pick(&[0u8, 5, 8, 23, 24, 27, 28, 29, 30, 31]);
            setbits(&mut mebytes, 1, 5, u64::from(tc));
            if tc == 31 {
                // a valid version 2 layout
                setbits(&mut mebytes, 6, 8, r.below(2));
                setbits(&mut mebytes, 9, 10, 0);
                setbits(&mut mebytes, 13, 14, 0);
                setbits(&mut mebytes, 25, 26, 0);
                setbits(&mut mebytes, 41, 43, 2);
            }
            mebytes
        }
    };
    encode::long_frame(df, h, addr, &mebytes).to_vec()
}

fn non_es_frame(r: &mut Rng, addrs: &[u32]) -> Vec<u8> {
    // formats whose address/parity overlay (or announced address) equals a tracked address
    let a = *r.pick(addrs);
    match r.below(5) {
        0 => encode::short_ap(*r.pick(&[0u8, 4, 5]), (r.next() & 0x7FF_FFFF) as u32, a).to_vec(),
        1 => encode::all_call(r.below(8) as u8, a, r.below(16) as u32).to_vec(),
        2 => {
            let mut p = [0u8; 7];
            r.fill(&mut p);
            encode::long_ap(*r.pick(&[16u8, 20, 21]), (r.next() & 0x7FF_FFFF) as u32, &p, a).to_vec()
        }
        3 => {
            let mut mebytes = [0u8; 7];
            r.fill(&mut mebytes);
            encode::long_frame(*r.pick(&[19u8, 24, 27, 31]), r.below(8) as u8, a, &mebytes).to_vec()
        }
        _ => {
            let mut m = vec![0u8; *r.pick(&[7usize, 14])];
            r.fill(&mut m);
            m
        }
    }
}

const RECEIVERS: [(f64, f64); 10] = [(0.0, 0.0), (45.0, 10.0), (-45.0, -120.0), (80.0, 60.0), (-80.0, -60.0), (89.9, 0.0), (-89.9, 100.0), (10.0, 179.9), (-10.0, -179.9), (52.3, 4.8)];
const RANGES: [f64; 5] = [1.0, 50.0, 500.0, 2000.0, 20_000.0];

pub fn gen_history(r: &mut Rng, kind: &'static str, with_time: bool) -> History {
    let receiver = *r.pick(&RECEIVERS);
    let max_range = *r.pick(&RANGES);
    let n_air = match kind {
        "few" => r.range(1, 3),
        _ => r.range(1, 12),
    } as usize;
    let mut flights: Vec<Flight> = (0..n_air)
        .map(|i| {
            // boundary addresses matter (an all-zero or all-ones address is still an address)
            let addr = match r.below(20) {
                0 => 0x000000,
                1 => 0xFFFFFF,
                2 => *r.pick(&[0x000001u32, 0x800000, 0x7FFFFF, 0x00FFFF, 0xFF0000]),
                3..=8 => 0x4840D0 + i as u32,
                _ => (r.next() & 0xFF_FFFF) as u32,
            };
            // start inside (mostly) or outside the range circle
            let frac = match r.below(6) {
                0 => 1.3,
                1 => 0.999,
                2 => 1.001,
                _ => r.f64() * 0.9,
            };
            let (lat, lon) = cpr::destination(receiver.0, receiver.1, r.f64() * 360.0, (max_range * frac).min(19_000.0));
            Flight {
                addr,
                lat,
                lon,
                bearing: r.f64() * 360.0,
                step_km: *r.pick(&[0.0, 0.05, 0.5, 2.0, 5.0]),
                callsigns: vec![format!("KLM{:04}", r.below(10000)), format!("N{}", r.below(99999)), "AB  CD 1".to_string(), "        ".to_string()],
                next_odd: r.bool(),
                last_pos_frame: None,
            }
        })
        .collect();
    {
        let mut seen = std::collections::BTreeSet::new();
        for f in flights.iter_mut() {
            while !seen.insert(f.addr) {
                f.addr = (f.addr + 1) & 0xFF_FFFF;
            }
        }
    }
    let addrs: Vec<u32> = flights.iter().map(|f| f.addr).collect();
    // every sixth history: one aircraft has a shadow (e.g. its TIS-B rebroadcast under the
    // neighbouring address) that sends bit-identical position reports right behind it
    let twin: Option<(usize, u32)> = if r.below(6) == 0 {
        let ti = r.below(flights.len() as u64) as usize;
        let ta = flights[ti].addr ^ 1;
        if addrs.contains(&ta) { None } else { Some((ti, ta)) }
    } else {
        None
    };
    let len = match kind {
        "long" => r.range(300, 1500),
        _ => r.range(40, 260),
    } as usize;
    let mut ops = Vec::with_capacity(len);
    let t_choices: [u64; 10] = [0, 1, 2, 10, 120, 1 << 32, i64::MAX as u64, 1 << 63, (1 << 63) + 4_000_000_000, u64::MAX];
    // every fourth history has a mobile receiver
    let mobile = r.below(4) == 0;
    let (mut rx, mut range) = (receiver, max_range);
    for _ in 0..len {
        if mobile && r.below(60) == 0 {
            // exactly above / exactly opposite an aircraft, then its last position report once more
            let fi = r.below(flights.len() as u64) as usize;
            if let Some(m) = flights[fi].last_pos_frame.clone() {
                // "exactly above" is decisive only when the repeated report is the odd one (then the
                // pairing order is not open to interpretation, DESIGN section 3)
                let odd = m.len() == 14 && (m[6] >> 2) & 1 == 1;
                let kind = if odd { r.below(2) as u8 } else { 1 };
                range = if kind == 0 { *r.pick(&[0.0, 0.0, 1.0]) } else { *r.pick(&[500.0, 20_000.0, 20_020.0, f64::INFINITY]) };
                ops.push(Op::ReceiverRel { addr: flights[fi].addr, kind, range });
                ops.push(Op::Frame(m));
                continue;
            }
        }
        if mobile && r.below(25) == 0 {
            let d = *r.pick(&[0.3, 2.0, 10.0, 60.0]);
            rx = cpr::destination(rx.0, rx.1, r.f64() * 360.0, d);
            if r.below(5) == 0 {
                range = *r.pick(&RANGES);
            }
            ops.push(Op::Receiver(rx, range));
            continue;
        }
        if with_time {
            match r.below(10) {
                0 | 1 => {
                    let t = *r.pick(&[1u64, 2, 10, 120]);
                    let tn = i128::from(t) * 1_000_000_000;
                    let dt: i128 = match r.below(8) {
                        0 => 0,
                        1 => 1,
                        2 => tn - 1,
                        3 => tn,
                        4 => tn + 1,
                        5 => -(r.below(5_000_000_000) as i128), // clock stepped backwards
                        _ => r.below(2 * tn as u64 + 1) as i128,
                    };
                    ops.push(Op::Advance(dt));
                    continue;
                }
                2 => {
                    ops.push(Op::Prune(*r.pick(&t_choices)));
                    continue;
                }
                _ => {}
            }
        }
        let fi = r.below(flights.len() as u64) as usize;
        let roll = r.below(100);
        let frame = if roll < 55 {
            // position report
            let f = &mut flights[fi];
            let (la, lo) = cpr::destination(f.lat, f.lon, f.bearing, f.step_km * r.f64());
            f.lat = la;
            f.lon = lo;
            let mode = match kind {
                "garbage" => r.below(12),
                _ => r.below(40),
            };
            match mode {
                0 => {
                    // teleport
                    let d = *r.pick(&[99.0, 101.0, 150.0, 5000.0, 99.99, 100.01]);
                    let (la, lo) = cpr::destination(f.lat, f.lon, r.f64() * 360.0, d);
                    f.lat = la;
                    f.lon = lo;
                    let odd = f.next_odd;
                    f.next_odd = !odd;
                    pos_frame(r, f, odd, la, lo)
                }
                1 => {
                    // garbage CPR values
                    let c = Cpr { odd: r.bool(), yz: r.below(131072) as u32, xz: r.below(131072) as u32 };
                    let mebytes = encode::me_airborne_position(11, 0, 0, encode::ac12_q(30_000), 0, c);
                    encode::long_frame(17, 5, f.addr, &mebytes).to_vec()
                }
                2 | 3 => {
                    // exact duplicate of the last position report
                    match f.last_pos_frame.clone() {
                        Some(m) => m,
                        None => {
                            let odd = f.next_odd;
                            pos_frame(r, f, odd, la, lo)
                        }
                    }
                }
                4 => {
                    // same parity again (long even-only / odd-only runs)
                    let odd = !f.next_odd;
                    pos_frame(r, f, odd, la, lo)
                }
                5 => {
                    // turn around / change pace
                    f.bearing = r.f64() * 360.0;
                    f.step_km = *r.pick(&[0.0, 0.05, 0.5, 2.0, 5.0, 20.0]);
                    let odd = f.next_odd;
                    f.next_odd = !odd;
                    pos_frame(r, f, odd, la, lo)
                }
                _ => {
                    let odd = f.next_odd;
                    f.next_odd = !odd;
                    pos_frame(r, f, odd, la, lo)
                }
            }
        } else if roll < 85 {
            let f = &flights[fi];
            let kind = r.below(4);
            other_es_frame(r, f.addr, kind, &f.callsigns)
        } else {
            non_es_frame(r, &addrs)
        };
        let shadow = match twin {
            Some((ti, ta)) if ti == fi && roll < 55 && frame.len() == 14 => {
                let mut me = [0u8; 7];
                me.copy_from_slice(&frame[4..11]);
                let df = if r.chance(0.5) { 17 } else { 18 };
                Some(encode::long_frame(df, if df == 17 { 5 } else { *r.pick(&[0u8, 1, 2, 5, 6]) }, ta, &me).to_vec())
            }
            _ => None,
        };
        ops.push(Op::Frame(frame));
        if let Some(m) = shadow {
            ops.push(Op::Frame(m));
        }
    }
    History { receiver, max_range, ops, kind }
}

/// A busy sky: hundreds to thousands of distinct addresses, a few non-position frames each
/// (identification, velocity, other). Nothing may ever leave the tracked set without expiry.
pub fn gen_crowd(r: &mut Rng) -> History {
    let n = *r.pick(&[200usize, 300, 600, 1200, 2500]);
    let base = (r.next() & 0xFF_0000) as u32;
    let mut addrs: Vec<u32> = (0..n).map(|i| (base + (i as u32) * r.range(1, 3) as u32) & 0xFF_FFFF).collect();
    addrs.sort_unstable();
    addrs.dedup();
    let cs = vec!["CROWD1".to_string(), "CROWD2".to_string()];
    let mut ops = Vec::new();
    for round in 0..r.range(1, 3) {
        // arrival order differs from address order
        let mut order = addrs.clone();
        for i in (1..order.len()).rev() {
            let j = r.below(i as u64 + 1) as usize;
            order.swap(i, j);
        }
        for a in order {
            let kind = if round == 0 { r.below(4) } else { r.below(2) };
            let k = if kind == 3 { 3 } else { kind.min(1) };
            ops.push(Op::Frame(other_es_frame(r, a, k, &cs)));
        }
    }
    History { receiver: (52.0, 4.0), max_range: 500.0, ops, kind: "crowd" }
}

/// One aircraft on a long steady flight: thousands of accepted, changing positions (a track
/// that keeps growing), with the occasional identification / velocity frame.
pub fn gen_marathon(r: &mut Rng) -> History {
    let receiver = *r.pick(&[(52.0, 4.0), (0.0, 0.0), (-45.0, 170.0)]);
    let n = r.range(1100, 2600) as usize;
    let (mut lat, mut lon) = cpr::destination(receiver.0, receiver.1, r.f64() * 360.0, 50.0);
    let bearing = r.f64() * 360.0;
    let mut f = Flight { addr: 0x4B1800 + r.below(256) as u32, lat, lon, bearing, step_km: 0.25, callsigns: vec!["LONGHAUL".into()], next_odd: false, last_pos_frame: None };
    let mut ops = Vec::with_capacity(n);
    for k in 0..n {
        // a gentle circle around the receiver keeps every report in range and < 100 km from the last
        let brg = bearing + k as f64 * 0.2;
        let (la, lo) = cpr::destination(lat, lon, brg, 0.25);
        lat = la;
        lon = lo;
        let odd = k % 2 == 1;
        ops.push(Op::Frame(pos_frame(r, &mut f, odd, la, lo)));
        if k % 97 == 0 {
            let cs = f.callsigns.clone();
            let kind = r.below(2);
            ops.push(Op::Frame(other_es_frame(r, f.addr, kind, &cs)));
        }
        if k % 700 == 650 {
            // expiry runs regularly in a client: a survivor (and its long track) must come through untouched
            ops.push(Op::Prune(*r.pick(&[100_000u64, 3600, u64::MAX])));
        }
    }
    History { receiver, max_range: 500.0, ops, kind: "marathon" }
}

/// A very long session of one aircraft (and a quiet second one): the message count must stay exact
/// far beyond 2^16 frames. Only non-position frames: the cheap per-step comparison applies.
pub fn gen_counter(r: &mut Rng) -> History {
    let n = r.range(66_000, 72_000) as usize;
    let a = 0x4C0000 + r.below(4096) as u32;
    let b = a + 1;
    let cs = vec!["COUNTER1".to_string(), "COUNTER2".to_string()];
    let mut ops = Vec::with_capacity(n + 8);
    for k in 0..n {
        let kind = r.below(4);
        ops.push(Op::Frame(other_es_frame(r, a, kind, &cs)));
        if k % 9000 == 17 {
            ops.push(Op::Frame(other_es_frame(r, b, 0, &cs)));
        }
    }
    History { receiver: (52.0, 4.0), max_range: 500.0, ops, kind: "counter" }
}

pub fn history_json(h: &History) -> Value {
    json!({
        "receiver": [h.receiver.0, h.receiver.1],
        "max_range": h.max_range,
        "kind": h.kind,
        "ops": h.ops.iter().map(|o| match o {
            Op::Frame(m) => json!({"frame": hex(m)}),
            Op::Advance(d) => json!({"advance_ns": d.to_string()}),
            Op::Prune(t) => json!({"prune_s": t}),
            Op::Receiver(p, range) => json!({"receiver": [p.0, p.1], "max_range": range}),
            Op::ReceiverRel { addr, kind, range } => json!({"receiver_rel": [addr, kind], "max_range": if range.is_finite() { json!(range) } else { json!("inf") }}),
        }).collect::<Vec<_>>(),
    })
}

// ------------------------------------------------------------------ running one history

const BASE_SEC: i64 = 1_790_000_000;

/// Runs `h` on a fresh real tracker under the thread's virtual clock, comparing with the model
/// after every step. Returns the final tracker for further checks.
pub fn run_history(g: &Gillham, col: &mut Collector, h: &History, upto: usize) -> Option<(Airplanes, usize)> {
    let mut planes = Airplanes::new();
    let mut model = Model::new(h.receiver, h.max_range);
    vclock::set_ns(i128::from(BASE_SEC) * 1_000_000_000);
    let mut first_bad: Option<usize> = None;
    let mut processed = 0usize;
    let (mut rx, mut range) = (h.receiver, h.max_range);
    for (idx, op) in h.ops.iter().enumerate().take(upto) {
        let mut dis = Vec::new();
        processed = idx + 1;
        match op {
            Op::ReceiverRel { addr, kind, range: rg } => {
                let k = ICAO([(addr >> 16) as u8, (addr >> 8) as u8, *addr as u8]);
                if let Some(p) = planes.get(k).and_then(|s| s.coords.position) {
                    rx = if *kind == 0 { (p.latitude, p.longitude) } else { (-p.latitude, if p.longitude >= 0.0 { p.longitude - 180.0 } else { p.longitude + 180.0 }) };
                    range = *rg;
                    model.receiver = rx;
                    model.max_range = range;
                    model.receiver_on = if *kind == 0 { Some(*addr) } else { None };
                    col.count(if *kind == 0 { "receiver_put_on_aircraft" } else { "receiver_put_on_antipode" }, 1);
                }
                continue;
            }
            Op::Receiver(p, rg) => {
                rx = *p;
                range = *rg;
                model.receiver = rx;
                model.max_range = range;
                model.receiver_on = None;
                col.count("receiver_moves", 1);
                continue;
            }
            Op::Advance(d) => {
                model.advance(*d);
                vclock::set_ns(i128::from(BASE_SEC) * 1_000_000_000 + model.now_ns);
                col.count("advances", 1);
                continue;
            }
            Op::Prune(t) => {
                // survivors must be untouched down to the last field: full Debug of every record before/after
                let before: std::collections::BTreeMap<u32, String> = planes.iter().map(|(k, v)| (icao_u32(k), format!("{v:?}"))).collect();
                let r = mon::guarded(|| planes.prune(*t));
                if let Err((loc, msg)) = r {
                    // expiry that panics removes nothing: the finding belongs to C15 (prune is not one of the
                    // per-frame operations C01 lists, and C01's own workload never prunes)
                    col.add(Finding { prop: "C15".into(), sig: format!("C15|panic_prune|{loc}"), detail: format!("prune({t}) panicked: {msg}"), input: history_json(h) });
                    col.add(Finding { prop: "C01".into(), sig: format!("C01|panic_prune|{loc}"), detail: msg, input: history_json(h) });
                    return None;
                }
                let snap = match views_guarded(col, h, &planes, true, idx) {
                    Some(s) => s,
                    None => return None,
                };
                dis = model.prune(*t, &snap);
                for (k, v) in planes.iter() {
                    let a = icao_u32(k);
                    match before.get(&a) {
                        Some(b) if *b == format!("{v:?}") => {}
                        Some(b) => dis.push(vref::tracker::Disagreement { prop: "C15", clause: "survivor_changed", detail: format!("addr {a:06x}: record changed by prune({t}): before {b} after {v:?}") }),
                        None => dis.push(vref::tracker::Disagreement { prop: "C15", clause: "prune_created_record", detail: format!("addr {a:06x} appeared during prune({t})") }),
                    }
                }
                col.count("prunes", 1);
            }
            Op::Frame(m) => {
                let Ok(Ok(frame)) = mon::guarded(|| Frame::from_bytes(m)) else {
                    col.count("frames_rejected_by_decoder", 1);
                    continue;
                };
                let ev = event_of(g, m);
                let before_tracked = if let Event::Es { addr, .. } = &ev { model.record_exists(*addr) } else { true };
                // a frame of another downlink format must change nothing at all (clock is frozen)
                let before_non_es = if ev == Event::NonEs && h.kind != "crowd" && h.kind != "counter" { Some(format!("{planes:?}")) } else { None };
                let res = mon::guarded(|| planes.action(frame, rx, range));
                let added = match res {
                    Ok(a) => a == Added::Yes,
                    Err((loc, msg)) => {
                        // a frame the tracker panics on is a frame it did not account for: besides C01
                        // the finding is raised for whichever tracker property is being checked
                        let hj = history_json(h);
                        for p in ["C12", "C13", "C14", "C15"] {
                            col.add(Finding { prop: p.into(), sig: format!("{p}|panic_tracker_action|{loc}"), detail: format!("Airplanes::action panicked at step {idx} ({}): {msg}", hex(m)), input: hj.clone() });
                        }
                        col.add(Finding { prop: "C01".into(), sig: format!("C01|panic_tracker_action|{loc}"), detail: msg, input: hj });
                        return None;
                    }
                };
                if (h.kind == "crowd" || h.kind == "counter") && idx % 97 != 0 && idx + 1 != h.ops.len() {
                    // busy-sky histories: cheap per-step checks, full snapshot comparison every 97 steps
                    let empty = Snapshot::new();
                    let mut d = model.step_without_comparison(&ev, added, &empty);
                    if let Event::Es { addr, .. } = &ev {
                        // the message count is exact at every step, however long the session
                        let k = ICAO([(addr >> 16) as u8, (addr >> 8) as u8, *addr as u8]);
                        let got = planes.get(k).map(|s| u64::from(s.num_messages));
                        if got != model.messages_of(*addr) {
                            d.push(vref::tracker::Disagreement { prop: "C12", clause: "message_count", detail: format!("addr {addr:06x}: {got:?} counted, {:?} received", model.messages_of(*addr)) });
                        }
                    }
                    if planes.len() != model.tracked().len() {
                        d.push(vref::tracker::Disagreement { prop: "C12", clause: "tracked_set", detail: format!("{} aircraft tracked, {} distinct addresses were heard and none expired", planes.len(), model.tracked().len()) });
                    }
                    dis = d;
                } else {
                    let snap = match views_guarded(col, h, &planes, h.kind != "marathon" || idx % 64 == 0 || idx + 1 == h.ops.len(), idx) {
                        Some(s) => s,
                        None => return None,
                    };
                    dis = model.step(&ev, added, &snap);
                }
                if let Some(b) = before_non_es {
                    col.count("non_es_full_state_comparisons", 1);
                    let after = format!("{planes:?}");
                    if after != b {
                        let i = b.bytes().zip(after.bytes()).take_while(|(x, y)| x == y).count();
                        dis.push(vref::tracker::Disagreement { prop: "C12", clause: "non_es_changed_state", detail: format!("a frame of another downlink format ({}) changed the tracker: ...{} -> ...{}", hex(m), &b[i.saturating_sub(60)..(i + 60).min(b.len())], &after[i.saturating_sub(60)..(i + 60).min(after.len())]) });
                    }
                }
                col.count("tracker_steps", 1);
                match &ev {
                    Event::NonEs => col.class("ev:non_es"),
                    Event::Es { payload, .. } => {
                        col.class(match payload {
                            Payload::Ident(_) => "ev:ident",
                            Payload::Velocity(Some(_)) => "ev:velocity",
                            Payload::Velocity(None) => "ev:velocity_without_derived",
                            Payload::Position { .. } => "ev:position",
                            Payload::Other => "ev:other_es",
                        });
                        if !before_tracked {
                            col.class("ev:first_frame_of_address");
                        }
                    }
                }
            }
        }
        // cheap API invariants at every quiescent point
        if planes.is_empty() != (planes.len() == 0) || planes.keys().count() != planes.len() || planes.iter().count() != planes.len() {
            dis.push(vref::tracker::Disagreement { prop: "C12", clause: "container_views_disagree", detail: format!("len {} is_empty {} keys {} iter {}", planes.len(), planes.is_empty(), planes.keys().count(), planes.iter().count()) });
        }
        let ghost = ICAO([0xFE, 0xDC, 0xBA]);
        if planes.get(ghost).is_none() && planes.aircraft_details(ghost).is_some() {
            dis.push(vref::tracker::Disagreement { prop: "C14", clause: "details_iff", detail: "details returned for an address that is not tracked".into() });
        }
        if !dis.is_empty() && first_bad.is_none() {
            first_bad = Some(idx);
        }
        for d in dis {
            let mut hj = history_json(h);
            hj["failing_step"] = json!(idx);
            col.add(Finding { prop: d.prop.to_string(), sig: format!("{}|{}|{}", d.prop, d.clause, h.kind), detail: format!("step {idx}: {}", d.detail), input: hj });
        }
        if first_bad.is_some() && idx > first_bad.unwrap() + 3 {
            // the model has been resynchronised where possible; stop after a few more steps to keep reports focused
            break;
        }
    }
    let st = &model.stats;
    col.count("model_published", st.published);
    col.count("model_cleared_out_of_range", st.cleared_range);
    col.count("model_cleared_jump", st.cleared_jump);
    col.count("model_undecodable_pairs", st.undecodable_pairs);
    col.count("model_ambiguous_followed_impl", st.ambiguous);
    col.count("model_pruned", st.pruned);
    col.count("model_duplicate_reports", st.duplicates);
    col.count("model_readded_after_expiry", st.readded);
    Some((planes, processed))
}

/// Snapshot of records and derived views; a view that panics (aircraft_details, all_position,
/// Display of the tracker) is a finding, not a crash of the harness.
fn views_guarded(col: &mut Collector, h: &History, planes: &Airplanes, views: bool, idx: usize) -> Option<Snapshot> {
    match mon::guarded(|| snapshot_opt(planes, views)) {
        Ok(s) => Some(s),
        Err((loc, msg)) => {
            let mut hj = history_json(h);
            hj["failing_step"] = json!(idx);
            col.add(Finding { prop: "C14".into(), sig: format!("C14|derived_view_panics|{loc}"), detail: format!("step {idx}: aircraft_details / all_position / Display of the tracker panicked: {msg}"), input: hj.clone() });
            col.add(Finding { prop: "C01".into(), sig: format!("C01|panic_tracker_views|{loc}"), detail: msg, input: hj });
            None
        }
    }
}

fn masked_debug(p: &Airplanes, addr: u32) -> Option<String> {
    let k = ICAO([(addr >> 16) as u8, (addr >> 8) as u8, addr as u8]);
    p.get(k).map(|s| format!("{s:?}"))
}

/// Isolation: the record of `a` after the interleaved history equals its record after its own frames alone.
fn isolation(g: &Gillham, col: &mut Collector, h: &History, planes: &Airplanes, processed: usize) {
    let mut addrs: Vec<u32> = planes.keys().map(icao_u32).collect();
    addrs.truncate(6);
    for a in addrs {
        vclock::set_ns(i128::from(BASE_SEC) * 1_000_000_000);
        let mut solo = Airplanes::new();
        let (mut rx, mut range) = (h.receiver, h.max_range);
        for op in h.ops.iter().take(processed) {
            if let Op::Receiver(p, rg) = op {
                rx = *p;
                range = *rg;
            }
            if let Op::Frame(m) = op {
                if let Event::Es { addr, .. } = event_of(g, m) {
                    if addr == a {
                        if let Ok(f) = Frame::from_bytes(m) {
                            let _ = solo.action(f, rx, range);
                        }
                    }
                }
            }
        }
        col.count("isolation_comparisons", 1);
        let x = masked_debug(planes, a);
        let y = masked_debug(&solo, a);
        if x != y {
            let mut hj = history_json(h);
            hj["address"] = json!(format!("{a:06x}"));
            col.add(Finding { prop: "C12".into(), sig: format!("C12|isolation|{}", h.kind), detail: format!("record of {a:06x} after the interleaved history: {x:?}; after its own frames alone: {y:?}"), input: hj });
        }
    }
}

pub fn run(ctx: &Ctx) -> i32 {
    let with_time = ctx.prop == "C15";
    let n_hist = match ctx.prop.as_str() {
        "C15" => ctx.q(6000u64, 400_000),
        _ => ctx.q(3000u64, 200_000),
    };
    let kinds: [&'static str; 5] = ["mixed", "few", "garbage", "long", "mixed"];
    let replay = ctx.flag("--replay");
    let mut col = if let Some(path) = replay {
        let mut c = Collector::new();
        match replay_file(&ctx.g, &mut c, &path) {
            Ok(()) => {}
            Err(e) => c.inconclusive(format!("replay file not usable: {e}")),
        }
        c
    } else {
        par_units(ctx, &format!("trk-{}", ctx.prop), n_hist, |i, r, col, slot| {
            let kind = kinds[(i % 5) as usize];
            // a few busy-sky histories per run (C12: the set only shrinks through expiry)
            let crowd = !with_time && ctx.prop == "C12" && i % 300 == 7;
            let marathon = i % 1500 == 11;
            let counter = !with_time && ctx.prop == "C12" && i % 3000 == 13;
            // C12-C14 also see time pass (and aircraft expire) in every fifth history: a pairing or
            // attribute rule that depends on the clock must not hide behind a frozen one
            let timed = with_time || i % 5 == 3;
            let h = if crowd { gen_crowd(r) } else if counter { gen_counter(r) } else if marathon { gen_marathon(r) } else { gen_history(r, kind, timed) };
            let kind = h.kind;
            slot.begin(|| format!("tracker history #{i} kind {kind}"));
            // every eighth history with logging switched on (the log lines' arguments are code too)
            let planes = if i % 8 == 5 {
                let p = crate::logsub::with_logging(|| run_history(&ctx.g, col, &h, usize::MAX));
                col.count("log_events_formatted", crate::logsub::take_events());
                col.count("histories_with_logging", 1);
                p
            } else {
                run_history(&ctx.g, col, &h, usize::MAX)
            };
            let has_rel = h.ops.iter().any(|o| matches!(o, Op::ReceiverRel { .. }));
            if !timed && !has_rel {
                if let Some((p, n)) = &planes {
                    if i % 4 == 0 {
                        isolation(&ctx.g, col, &h, p, *n);
                    }
                }
            }
            slot.end();
            col.count("histories", 1);
            col.class(&format!("history:{kind}"));
            col.seen_hash(crate::collect::fnv(format!("{:?}", h.ops.len()).as_bytes()) ^ i);
            if i < 2 {
                let mut hj = history_json(&h);
                if let Some(ops) = hj["ops"].as_array_mut() {
                    ops.truncate(12);
                }
                col.sample(hj);
            }
        })
    };
    vclock::clear();
    if with_time {
        realtime_crosscheck(&mut col);
    }
    let evals = col.counters.get("tracker_steps").copied().unwrap_or(0) + col.counters.get("prunes").copied().unwrap_or(0);
    let distinct = col.counters.get("histories").copied().unwrap_or(0);
    let (rule, assumptions): (&str, Vec<&str>) = match ctx.prop.as_str() {
        "C15" => (
            "seeded histories over {frame(a), advance(dt), prune(T)} for 1-12 aircraft on a per-thread virtual clock (clock_gettime interposed, frozen between advances); dt in {0, 1ns, T-1ns, T, T+1ns, negative, random}, T in {0,1,2,10,120,2^32,2^63-1,2^63,2^63+4e9,2^64-1}; after every frame and every prune the real tracker is compared with the expiry model; distinct_nontrivial = histories (each a distinct seeded sequence with at least one frame)",
            vec!["SystemTime::now()/elapsed() resolve to the interposed clock_gettime (cross-checked by a real-time run without interposition)", "time is logical: the verdict never depends on wall-clock"],
        ),
        _ => (
            "seeded histories of 40-1500 real frames (encoder -> bytes -> Frame::from_bytes -> Airplanes::action) over 1-12 aircraft: consistent flights, teleports of 99/101/150/5000 km, range-circle crossings, garbage CPR pairs, duplicates, same-parity runs, identification/velocity (with and without derived velocity)/other ES payloads, DF18 with every CF and PI != 0, non-ES formats addressed to tracked aircraft; 10 receivers incl. poles/antimeridian, 5 ranges, every fourth history with a receiver that moves (0.3-60 km steps, and now and then exactly onto or exactly opposite an aircraft's published position) and changes its range setting between frames; every fifth history on the virtual clock with time passing and expiry (advance / prune steps as in C15); every sixth history with a shadow aircraft under the neighbouring address sending bit-identical position reports; one 66-72k-frame single-aircraft session per 3000 histories (C12: exact count beyond 2^16); after every step a snapshot of the real tracker (records, details, all_position, Display) is compared with the sequential model; isolation replay for up to 6 aircraft of every 4th history; distinct_nontrivial = histories",
            vec!["events are derived from the frame bytes by the reference model, not by the decoder under test", "decisions within a 1e-9 relative band of the range/jump thresholds follow the implementation (counted)"],
        ),
    };
    let info = ctx.info("exploration", rule, &assumptions, 1000);
    crate::collect::finish(&info, &col, evals, distinct, false, json!({}))
}

fn replay_file(g: &Gillham, col: &mut Collector, path: &str) -> Result<(), String> {
    let txt = std::fs::read_to_string(path).map_err(|e| e.to_string())?;
    let v: Value = serde_json::from_str(&txt).map_err(|e| e.to_string())?;
    let inp = &v["input"];
    let rec = inp["receiver"].as_array().ok_or("no receiver")?;
    let mut ops = vec![];
    for o in inp["ops"].as_array().ok_or("no ops")? {
        if let Some(f) = o["frame"].as_str() {
            ops.push(Op::Frame(vref::bits::unhex(f).ok_or("bad hex")?));
        } else if let Some(d) = o["advance_ns"].as_str() {
            ops.push(Op::Advance(d.parse().map_err(|_| "bad advance")?));
        } else if let Some(t) = o["prune_s"].as_u64() {
            ops.push(Op::Prune(t));
        } else if let Some(p) = o["receiver_rel"].as_array() {
            ops.push(Op::ReceiverRel { addr: p[0].as_u64().unwrap_or(0) as u32, kind: p[1].as_u64().unwrap_or(0) as u8, range: o["max_range"].as_f64().unwrap_or(f64::INFINITY) });
        } else if let Some(p) = o["receiver"].as_array() {
            ops.push(Op::Receiver((p[0].as_f64().unwrap_or(0.0), p[1].as_f64().unwrap_or(0.0)), o["max_range"].as_f64().unwrap_or(500.0)));
        }
    }
    let h = History { receiver: (rec[0].as_f64().unwrap_or(0.0), rec[1].as_f64().unwrap_or(0.0)), max_range: inp["max_range"].as_f64().unwrap_or(500.0), ops, kind: "replay" };
    let p = run_history(g, col, &h, usize::MAX);
    if let Some((p, n)) = &p {
        isolation(g, col, &h, p, *n);
    }
    col.count("histories", 1);
    Ok(())
}

/// Real sleeps around T = 1 s without the virtual clock: the interposition must not change behaviour.
fn realtime_crosscheck(col: &mut Collector) {
    vclock::clear();
    let mut planes = Airplanes::new();
    let a = encode::long_frame(17, 5, 0x111111, &encode::me_identification(4, 0, &encode::callsign_chars("REALTIME")));
    let b = encode::long_frame(17, 5, 0x222222, &encode::me_identification(4, 0, &encode::callsign_chars("REALTIM2")));
    let _ = planes.action(Frame::from_bytes(&a).unwrap(), (0.0, 0.0), 500.0);
    std::thread::sleep(std::time::Duration::from_millis(700));
    let _ = planes.action(Frame::from_bytes(&b).unwrap(), (0.0, 0.0), 500.0);
    planes.prune(1);
    let n1 = planes.len();
    std::thread::sleep(std::time::Duration::from_millis(600));
    planes.prune(1); // a: 1.3 s old -> removed; b: 0.6 s -> kept
    let n2 = planes.len();
    std::thread::sleep(std::time::Duration::from_millis(700));
    planes.prune(1);
    let n3 = planes.len();
    col.count("realtime_crosscheck_runs", 1);
    if (n1, n2, n3) != (2, 1, 0) {
        // margins of 300 ms: a loaded machine can stretch sleeps, which only delays, so n2 could be 0
        if n1 == 2 && n3 == 0 && n2 <= 1 {
            col.inconclusive("real-time cross-check stretched by scheduling");
        } else {
            col.add(Finding { prop: "C15".into(), sig: "C15|realtime_crosscheck".into(), detail: format!("tracked counts after prune(1) at 0.7/1.3/2.0 s: {n1}/{n2}/{n3}, expected 2/1/0"), input: json!({"frames": [hex(&a), hex(&b)]}) });
        }
    }
}

// ------------------------------------------------------------------ C20 corpus

/// Inverse of the odd number `q` modulo 2^k.
fn inv_pow2(q: u64, k: u32) -> u64 {
    let m = (1u64 << k) - 1;
    let mut x = q & m;
    for _ in 0..6 {
        x = x.wrapping_mul(2u64.wrapping_sub(q.wrapping_mul(x))) & m;
    }
    x
}

/// (XZ even, XZ odd) with XZ0*(NL-1) - XZ1*NL = 2^16 (mod 2^17).
fn half_integer_lon(r: &mut Rng, nl: u64) -> Option<(u32, u32)> {
    if nl < 2 {
        return Some((r.below(131072) as u32, 65536));
    }
    let g = nl - 1;
    let a = g.trailing_zeros();
    let q = g >> a;
    // 2^16 + XZ1*NL must be divisible by 2^a: NL is odd whenever a > 0, so XZ1 is a multiple of 2^a
    let xo = (r.below(131072 >> a)) << a;
    let rhs = (65536 + xo * nl) >> a;
    let k = 17 - a;
    let base = (rhs % (1 << k)) * inv_pow2(q, k) % (1 << k);
    let xe = (base + (r.below(1 << a) << k)) % 131072;
    let chk = (xe * g + 131072 * 64 * nl - xo * nl) % 131072;
    if chk == 65536 % 131072 { Some((xe as u32, xo as u32)) } else { None }
}

/// Writes the corpus replayed by the three feature-set builds of the dumper.
pub fn gen_c20_corpus(ctx: &Ctx, out: &str) -> std::io::Result<(u64, u64, u64)> {
    use std::io::Write;
    let f = std::fs::File::create(out)?;
    let mut w = std::io::BufWriter::new(f);
    let mut r = Rng::derive(ctx.seed, "c20-corpus", 0);
    let n_frames = ctx.q(120_000u64, 4_000_000);
    let n_hist = ctx.q(400u64, 20_000);
    let n_pairs = ctx.q(20_000u64, 1_000_000);
    let classes = crate::gen::all_classes();
    for i in 0..n_frames {
        let m = if i % 3 == 0 { crate::gen::random_buffer(&mut r) } else { classes[(r.below(classes.len() as u64)) as usize].make(&mut r) };
        writeln!(w, "F {}", hex(&m))?;
    }
    // frames whose fields take their "default" values (all-zero / all-one payloads, blank
    // identifications, zero addresses): what a serializer that skips defaults would lose
    let mut n_default = 0u64;
    let fills: [[u8; 7]; 4] = [[0; 7], [0xFF; 7], [0x00, 0x82, 0x08, 0x20, 0x82, 0x08, 0x20], [0x00, 0x00, 0x00, 0x00, 0x82, 0x08, 0x20]];
    for df in [17u8, 18] {
        for ca in 0..8u8 {
            for tc in 0..32u8 {
                for (k, fill) in fills.iter().enumerate() {
                    for st in [0u8, 1, 7] {
                        let mut me = *fill;
                        setbits(&mut me, 1, 5, u64::from(tc));
                        if k < 2 || tc > 4 {
                            setbits(&mut me, 6, 8, u64::from(st));
                        }
                        let addr = if (ca + tc) % 3 == 0 { 0 } else { 0x4840D6 };
                        writeln!(w, "F {}", hex(&encode::long_frame(df, ca, addr, &me)))?;
                        n_default += 1;
                    }
                }
            }
        }
    }
    for df in [16u8, 20, 21] {
        for fill in &fills {
            for first in [0x00u8, 0x10, 0x20, 0x30, 0xFF] {
                let mut p = *fill;
                p[0] = first;
                for body in [0u32, 0x7FF_FFFF, 0x0001FFF] {
                    writeln!(w, "F {}", hex(&encode::long_ap(df, body, &p, if first == 0 { 0 } else { 0xABCDEF })))?;
                    n_default += 1;
                }
            }
        }
    }
    for df in [0u8, 4, 5] {
        for body in [0u32, 0x7FF_FFFF, 0x0001FFF, 0x0000001] {
            writeln!(w, "F {}", hex(&encode::short_ap(df, body, 0)))?;
            writeln!(w, "F {}", hex(&encode::short_ap(df, body, 0xFFFFFF)))?;
            n_default += 2;
        }
    }
    for ca in 0..8u8 {
        writeln!(w, "F {}", hex(&encode::all_call(ca, 0, 0)))?;
        writeln!(w, "F {}", hex(&encode::all_call(ca, 0xFFFFFF, 15)))?;
        n_default += 2;
    }
    for _ in 0..n_pairs {
        let o = r.below(2);
        let o2 = if r.chance(0.9) { 1 - o } else { o };
        writeln!(w, "P {} {} {} {} {} {}", r.below(131072), r.below(131072), o, r.below(131072), r.below(131072), o2)?;
    }
    // true pairs
    for _ in 0..n_pairs / 4 {
        let lat = (r.f64() * 2.0 - 1.0).asin().to_degrees();
        let lon = r.f64() * 360.0 - 180.0;
        let a = cpr::encode(lat, lon, false);
        let b = cpr::encode(lat, lon, true);
        writeln!(w, "P {} {} 0 {} {} 1", a.yz, a.xz, b.yz, b.xz)?;
        writeln!(w, "P {} {} 1 {} {} 0", b.yz, b.xz, a.yz, a.xz)?;
    }
    // pairs whose zone-index expressions are exact half-integers (59*YZ0 - 60*YZ1 or
    // XZ0*(NL-1) - XZ1*NL an odd multiple of 2^16): where floor(x + 1/2), round-half-away and
    // round-half-even part ways, for negative and positive x
    let n_half = n_pairs / 4;
    for k in 0..n_half {
        let lat = (r.f64() * 2.0 - 1.0).asin().to_degrees();
        let lon = r.f64() * 360.0 - 180.0;
        let (mut e, mut o) = (cpr::encode(lat, lon, false), cpr::encode(lat, lon, true));
        if k % 4 != 3 {
            let nl = u64::from(cpr::nl(lat));
            if let Some((xe, xo)) = half_integer_lon(&mut r, nl) {
                e.xz = xe;
                o.xz = xo;
            }
        }
        if k % 4 >= 2 {
            let yo = r.below(131072);
            let ye = ((65536 + 60 * yo) % 131072) * inv_pow2(59, 17) % 131072;
            e.yz = ye as u32;
            o.yz = yo as u32;
        }
        writeln!(w, "P {} {} 0 {} {} 1", e.yz, e.xz, o.yz, o.xz)?;
        writeln!(w, "P {} {} 1 {} {} 0", o.yz, o.xz, e.yz, e.xz)?;
    }
    let kinds: [&'static str; 4] = ["mixed", "few", "garbage", "mixed"];
    for i in 0..n_hist {
        let h = gen_history(&mut r, kinds[(i % 4) as usize], false);
        writeln!(w, "H {} {} {}", h.receiver.0, h.receiver.1, h.max_range)?;
        for (k, op) in h.ops.iter().enumerate() {
            if let Op::Frame(m) = op {
                writeln!(w, "A {}", hex(m))?;
                // time passes between frames (std builds have a clock, the alloc-only build has none)
                if r.below(7) == 0 {
                    writeln!(w, "W {}", *r.pick(&[1_000_000_000u64, 9_000_000_000, 11_000_000_000, 61_000_000_000, 3_600_000_000_000]))?;
                }
            }
            if let Op::Receiver(p, range) = op {
                writeln!(w, "R {} {} {}", p.0, p.1, range)?;
            }
            if k % 16 == 15 {
                writeln!(w, "D")?;
            }
        }
        writeln!(w, "D")?;
    }
    // aircraft published exactly on the lines where coordinates take their extreme or "default"
    // values (the 180 degree meridian: longitude exactly -180.0; the prime meridian and the
    // equator: exactly 0.0 / -0.0; the poles), seen from a receiver next to them, in both orders
    // of the pair and with and without altitude: what a (de)serializer that validates, skips or
    // normalises such values would lose
    let mut n_edge = 0u64;
    for (k, &(lat, lon)) in [(51.0f64, 180.0f64), (0.0, 180.0), (-33.0, -180.0), (51.0, 0.0), (0.0, 0.0), (0.0, 45.0), (90.0, 0.0), (-90.0, 0.0), (87.0, 180.0), (-87.0, 0.0), (10.0, 180.0), (0.0, 90.0), (45.0, -90.0), (60.0, 180.0)].iter().enumerate() {
        for order in 0..2usize {
            let rlon = if lon == 0.0 { 0.3 } else if lon > 0.0 { lon - 0.3 } else { lon + 0.3 };
            writeln!(w, "H {} {} {}", if lat.abs() > 89.0 { lat - lat.signum() * 0.2 } else { lat }, rlon, 500.0)?;
            let addr = 0x3C0000 + (k * 2 + order) as u32;
            writeln!(w, "A {}", hex(&encode::long_frame(17, 5, addr, &encode::me_identification(4, 0, &encode::callsign_chars(if order == 0 { "EDGE" } else { "" })))))?;
            let alt = if order == 0 { encode::ac12_q(35000) } else { 0 };
            for odd in if order == 0 { [false, true, false] } else { [true, false, true] } {
                writeln!(w, "A {}", hex(&encode::long_frame(17, 5, addr, &encode::me_airborne_position(11, 0, 0, alt, 0, cpr::encode(lat, lon, odd)))))?;
                writeln!(w, "D")?;
                n_edge += 1;
            }
        }
    }
    w.flush()?;
    Ok((n_frames + n_default, n_pairs + n_pairs / 2 + 2 * n_half, n_hist + n_edge / 3))
}
