//! Findings: de-duplication by signature, known-finding classification,
//! replay files, evidence files, exit status.

use serde_json::{json, Value};
use std::collections::BTreeMap;
use std::path::{Path, PathBuf};

#[derive(Debug, Clone)]
pub struct Finding {
    pub prop: String,
    /// `prop|clause|class...`
    pub sig: String,
    pub detail: String,
    /// replayable input (hex of a frame, or a JSON history)
    pub input: Value,
}

#[derive(Default)]
pub struct Collector {
    pub by_sig: BTreeMap<String, (Finding, u64)>,
    pub inconclusive: BTreeMap<String, u64>,
    pub counters: BTreeMap<String, u64>,
    pub classes: BTreeMap<String, u64>,
    pub samples: Vec<Value>,
    pub maxima: BTreeMap<String, u64>,
    /// 64-bit hashes of distinct judged inputs (exact up to DISTINCT_CAP, then a lower bound)
    pub distinct: std::collections::HashSet<u64>,
}

pub const DISTINCT_CAP: usize = 4_000_000;
pub const DISTINCT_CAP_THREAD: usize = 400_000;

pub fn fnv(bytes: &[u8]) -> u64 {
    let mut h: u64 = 0xcbf2_9ce4_8422_2325;
    for b in bytes {
        h ^= u64::from(*b);
        h = h.wrapping_mul(0x0000_0100_0000_01B3);
    }
    h
}

pub const MAX_SIGS: usize = 400;

impl Collector {
    pub fn new() -> Self {
        Self::default()
    }
    /// The cap on distinct signatures is per property, so that a flood of disagreements attributed
    /// to another property can never crowd out a finding of the property being checked.
    fn room_for(&self, prop: &str) -> bool {
        self.by_sig.values().filter(|(f, _)| f.prop == prop).count() < MAX_SIGS
    }
    pub fn add(&mut self, f: Finding) {
        if let Some(e) = self.by_sig.get_mut(&f.sig) {
            e.1 += 1;
        } else if self.by_sig.len() < MAX_SIGS || self.room_for(&f.prop) {
            self.by_sig.insert(f.sig.clone(), (f, 1));
        } else {
            *self.counters.entry("findings_dropped_over_signature_cap".into()).or_insert(0) += 1;
        }
    }
    pub fn inconclusive(&mut self, what: impl Into<String>) {
        *self.inconclusive.entry(what.into()).or_insert(0) += 1;
    }
    #[inline]
    pub fn count(&mut self, k: &str, n: u64) {
        if let Some(c) = self.counters.get_mut(k) {
            *c += n;
        } else {
            self.counters.insert(k.to_string(), n);
        }
    }
    #[inline]
    pub fn class(&mut self, k: &str) {
        if let Some(c) = self.classes.get_mut(k) {
            *c += 1;
        } else {
            self.classes.insert(k.to_string(), 1);
        }
    }
    pub fn max(&mut self, k: &str, v: u64) {
        let e = self.maxima.entry(k.to_string()).or_insert(0);
        if v > *e {
            *e = v;
        }
    }
    #[inline]
    pub fn seen(&mut self, bytes: &[u8]) {
        if self.distinct.len() < DISTINCT_CAP_THREAD {
            self.distinct.insert(fnv(bytes));
        }
    }
    pub fn seen_hash(&mut self, h: u64) {
        if self.distinct.len() < DISTINCT_CAP_THREAD {
            self.distinct.insert(h);
        }
    }
    pub fn sample(&mut self, v: Value) {
        if self.samples.len() < 12 {
            self.samples.push(v);
        }
    }
    pub fn merge(&mut self, o: Collector) {
        for (k, (f, n)) in o.by_sig {
            if let Some(e) = self.by_sig.get_mut(&k) {
                e.1 += n;
            } else if self.by_sig.len() < MAX_SIGS || self.room_for(&f.prop) {
                self.by_sig.insert(k, (f, n));
            }
        }
        for (k, n) in o.inconclusive {
            *self.inconclusive.entry(k).or_insert(0) += n;
        }
        for (k, n) in o.counters {
            *self.counters.entry(k).or_insert(0) += n;
        }
        for (k, n) in o.classes {
            *self.classes.entry(k).or_insert(0) += n;
        }
        for (k, n) in o.maxima {
            let e = self.maxima.entry(k).or_insert(0);
            if n > *e {
                *e = n;
            }
        }
        for s in o.samples {
            self.sample(s);
        }
        for h in o.distinct {
            if self.distinct.len() >= DISTINCT_CAP {
                break;
            }
            self.distinct.insert(h);
        }
    }
}

#[derive(Debug, Clone)]
pub struct Known {
    pub status: String, // known | fixed
    pub property: String,
    pub signature: String, // glob with '*'
    pub what: String,
}

pub fn load_known(path: &Path) -> Vec<Known> {
    let Ok(txt) = std::fs::read_to_string(path) else { return vec![] };
    let Ok(v) = serde_json::from_str::<Value>(&txt) else { return vec![] };
    let mut out = vec![];
    if let Some(a) = v.get("findings").and_then(|x| x.as_array()) {
        for e in a {
            out.push(Known {
                status: e["status"].as_str().unwrap_or("known").to_string(),
                property: e["property"].as_str().unwrap_or("").to_string(),
                signature: e["signature"].as_str().unwrap_or("").to_string(),
                what: e["what"].as_str().unwrap_or("").to_string(),
            });
        }
    }
    out
}

pub fn glob_match(pat: &str, s: &str) -> bool {
    // '*' matches any run of characters
    let parts: Vec<&str> = pat.split('*').collect();
    if parts.len() == 1 {
        return pat == s;
    }
    let mut pos = 0usize;
    for (i, p) in parts.iter().enumerate() {
        if p.is_empty() {
            continue;
        }
        if i == 0 {
            if !s.starts_with(p) {
                return false;
            }
            pos = p.len();
        } else if i == parts.len() - 1 {
            return s.len() >= pos + p.len() && s.ends_with(p);
        } else {
            match s[pos..].find(p) {
                Some(j) => pos += j + p.len(),
                None => return false,
            }
        }
    }
    true
}

pub struct RunInfo {
    pub prop: String,
    pub tier: String,
    pub seed: u64,
    pub level: String,
    pub rule: String,
    pub assumptions: Vec<String>,
    pub evidence_path: PathBuf,
    pub replay_dir: PathBuf,
    pub known_path: PathBuf,
    pub start: std::time::Instant,
    /// minimum number of judged executions for the run to count as conclusive
    pub min_evaluations: u64,
}

/// Classify, print, write replay + evidence. Returns the process exit code.
/// `evaluations`/`distinct` are measured by the caller; `extra` is merged into coverage.
pub fn finish(info: &RunInfo, col: &Collector, evaluations: u64, distinct: u64, exhaustive: bool, extra: Value) -> i32 {
    let known = load_known(&info.known_path);
    let mut violations = 0u64;
    let mut known_hits: Vec<Value> = vec![];
    let mut viol_list: Vec<Value> = vec![];
    for (sig, (f, n)) in &col.by_sig {
        if f.prop != info.prop {
            continue;
        }
        let k = known.iter().find(|k| k.status == "known" && k.property == f.prop && glob_match(&k.signature, sig));
        if let Some(k) = k {
            println!("KNOWN-FINDING: property={} {} {} (seen {}x; e.g. {})", f.prop, sig, k.what, n, short(&f.detail));
            known_hits.push(json!({"signature": sig, "count": n, "listed_as": k.signature}));
        } else {
            violations += 1;
            let _ = std::fs::create_dir_all(&info.replay_dir);
            let fname = format!("{}.json", sanitize(sig));
            let path = info.replay_dir.join(fname);
            let body = json!({"property": f.prop, "signature": sig, "detail": f.detail, "input": f.input, "count": n, "seed": info.seed, "tier": info.tier});
            let _ = std::fs::write(&path, serde_json::to_string_pretty(&body).unwrap());
            println!("VIOLATION property={} replay={}", f.prop, path.display());
            println!("  signature: {sig}");
            println!("  detail: {}", short(&f.detail));
            viol_list.push(json!({"signature": sig, "count": n, "replay": path.display().to_string()}));
        }
    }
    let other_props: BTreeMap<String, u64> = col.by_sig.iter().filter(|(_, (f, _))| f.prop != info.prop).fold(BTreeMap::new(), |mut m, (_, (f, n))| {
        *m.entry(f.prop.clone()).or_insert(0) += n;
        m
    });
    for (what, n) in &col.inconclusive {
        println!("INCONCLUSIVE property={} {} ({}x)", info.prop, what, n);
    }
    let mut coverage = json!({
        "evaluations": evaluations,
        "distinct_nontrivial": distinct,
        "rule": info.rule,
        "samples": col.samples,
        "exhaustive": exhaustive,
        "counters": col.counters,
        "classes_observed": col.classes.len(),
        "classes": col.classes,
        "maxima": col.maxima,
        "known_findings_seen": known_hits,
        "violations_found": viol_list,
        "inconclusive": col.inconclusive,
        "disagreements_attributed_to_other_properties": other_props,
    });
    if let (Some(c), Some(e)) = (coverage.as_object_mut(), extra.as_object()) {
        for (k, v) in e {
            c.insert(k.clone(), v.clone());
        }
    }
    let ev = json!({
        "property_id": info.prop,
        "tier": info.tier,
        "seed": info.seed,
        "level": info.level,
        "coverage": coverage,
        "assumptions": info.assumptions,
        "wall_s": info.start.elapsed().as_secs_f64(),
        "violations": violations,
    });
    if let Some(d) = info.evidence_path.parent() {
        let _ = std::fs::create_dir_all(d);
    }
    let _ = std::fs::write(&info.evidence_path, serde_json::to_string_pretty(&ev).unwrap());
    println!(
        "{} {} seed={} evaluations={} distinct={} classes={} violations={} known={} wall={:.1}s",
        info.prop,
        info.tier,
        info.seed,
        evaluations,
        distinct,
        col.classes.len(),
        violations,
        known_hits.len(),
        info.start.elapsed().as_secs_f64()
    );
    if violations > 0 {
        1
    } else if evaluations < info.min_evaluations {
        println!("INCONCLUSIVE property={} only {} judged executions (< {})", info.prop, evaluations, info.min_evaluations);
        2
    } else {
        0
    }
}

fn short(s: &str) -> String {
    if s.len() > 400 {
        format!("{}…", &s[..s.char_indices().take_while(|(i, _)| *i < 400).last().map_or(0, |(i, _)| i)])
    } else {
        s.to_string()
    }
}

pub fn sanitize(s: &str) -> String {
    let mut o: String = s.chars().map(|c| if c.is_ascii_alphanumeric() || c == '-' || c == '.' { c } else { '_' }).collect();
    if o.len() > 120 {
        o.truncate(120);
    }
    o
}
