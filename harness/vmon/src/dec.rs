//! Decoder-level properties C01-C04, C06-C11: workloads over the real
//! `Frame::from_bytes` judged by `obs::judge`.

use crate::collect::{Collector, Finding};
use crate::gen::{self, ClassSpec};
use crate::mon;
use crate::obs::{self, Res};
use crate::run::{par_units, Ctx};
use adsb_deku::{cpr as rcpr, Altitude, CPRFormat, ICAO};
use serde_json::json;
use std::str::FromStr;
use vref::bits::{flipbit, frame_bits, getbits, hex, setbits};
use vref::crc;
use vref::encode;
use vref::expect::{self, Verdict};
use vref::rng::Rng;

fn fnd(prop: &str, clause: &str, class: &str, detail: String, input: serde_json::Value) -> Finding {
    Finding { prop: prop.to_string(), sig: format!("{prop}|{clause}|{class}"), detail, input }
}

// ------------------------------------------------------------------ building blocks

/// For every class: for every interpreted field of that class (restricted to
/// `props` if non-empty) try the values of `gen::field_values`, each time with
/// all other bits of the frame freshly randomised.
fn class_sweep(ctx: &Ctx, label: &str, classes: &[ClassSpec], props: &[&str], full_limit: usize, extra: usize, reps: usize) -> Collector {
    par_units(ctx, label, classes.len() as u64, |i, r, col, slot| {
        let cs = classes[i as usize];
        let base = cs.make(r);
        let exp = expect::expect(&ctx.g, &base);
        let mut fields: Vec<(usize, usize)> = exp.items.iter().filter(|it| props.is_empty() || props.contains(&it.prop)).map(|it| it.bits).filter(|b| b.1 - b.0 < 24).collect();
        // header bits 6..=32 and the payload as raw bytes are always swept too (unowned bits matter for independence)
        fields.push((6, 8));
        fields.sort_unstable();
        fields.dedup();
        for (first, last) in fields {
            let vals = gen::field_values(last - first + 1, full_limit, extra, r);
            for v in vals {
                for _ in 0..reps {
                    let mut m = cs.make(r);
                    setbits(&mut m, first, last, v);
                    slot.begin(|| hex(&m));
                    obs::judge(&ctx.g, col, &m);
                    slot.end();
                }
            }
        }
        col.count("classes_swept", 1);
    })
}

fn random_frames(ctx: &Ctx, label: &str, n: u64) -> Collector {
    let per = 2000u64;
    par_units(ctx, label, n.div_ceil(per), |_, r, col, slot| {
        for _ in 0..per {
            let m = gen::random_buffer(r);
            slot.begin(|| hex(&m));
            obs::judge(&ctx.g, col, &m);
            slot.end();
        }
    })
}

/// Random frames of exactly the classes given (valid length).
fn class_random(ctx: &Ctx, label: &str, classes: &[ClassSpec], per_class: u64) -> Collector {
    par_units(ctx, label, classes.len() as u64, |i, r, col, slot| {
        let cs = classes[i as usize];
        for k in 0..per_class {
            let m = cs.make(r);
            slot.begin(|| hex(&m));
            obs::judge(&ctx.g, col, &m);
            slot.end();
            if k == 0 && i % 97 == 0 {
                col.sample(json!({"frame_hex": hex(&m), "class": format!("{cs:?}")}));
            }
        }
    })
}

fn corpus_mutations(ctx: &Ctx, reps: u64) -> Collector {
    let corpus = gen::corpus(&ctx.repo);
    let n = corpus.len() as u64;
    let mut c = par_units(ctx, "corpus", n, |i, r, col, slot| {
        let base = &corpus[i as usize];
        obs::judge(&ctx.g, col, base);
        for _ in 0..reps {
            let mut m = base.clone();
            match r.below(4) {
                0 => {
                    let b = r.range(1, (m.len() * 8) as u64) as usize;
                    flipbit(&mut m, b);
                }
                1 => {
                    for _ in 0..r.range(2, 6) {
                        let b = r.range(1, (m.len() * 8) as u64) as usize;
                        flipbit(&mut m, b);
                    }
                }
                2 => {
                    let k = r.below(m.len() as u64 + 1) as usize;
                    m.truncate(k);
                }
                _ => {
                    let extra = r.range(1, 18) as usize;
                    let mut t = vec![0u8; extra];
                    r.fill(&mut t);
                    m.extend(t);
                }
            }
            slot.begin(|| hex(&m));
            obs::judge(&ctx.g, col, &m);
            slot.end();
        }
    });
    c.count("corpus_frames", n);
    if n == 0 {
        c.inconclusive("no hex literals found in the repository's tests/README");
    }
    c
}

/// Walking-bit differential: flipping one payload/header bit may only change the
/// fields that own that bit (and the checksum).
fn walking_bits(ctx: &Ctx, label: &str, classes: &[ClassSpec], reps: u64) -> Collector {
    par_units(ctx, label, classes.len() as u64, |i, r, col, slot| {
        let cs = classes[i as usize];
        for _ in 0..reps {
            let base = cs.make(r);
            let (exp, o) = obs::judge(&ctx.g, col, &base);
            let Res::Ok(ok) = &o.res else { continue };
            let Some(t0) = &ok.tree else { continue };
            if exp.verdict != Verdict::Accept {
                continue;
            }
            let l0 = t0.leaves();
            let df = exp.df;
            let tc = getbits(&base, 33, 37);
            for bit in 6..=exp.nbits {
                // bits that select a variant change the shape of the report, not a value
                let dispatch = match df {
                    17 | 18 => (33..=37).contains(&bit) || ((tc == 19 || tc == 31) && (38..=40).contains(&bit)),
                    20 | 21 => (33..=40).contains(&bit),
                    _ => false,
                };
                if dispatch {
                    continue;
                }
                let mut m = base.clone();
                flipbit(&mut m, bit);
                slot.begin(|| hex(&m));
                let o2 = obs::observe(&m);
                slot.end();
                col.count("walking_bit_decodes", 1);
                let Res::Ok(ok2) = &o2.res else { continue };
                let Some(t1) = &ok2.tree else { continue };
                let l1 = t1.leaves();
                let m1: std::collections::HashMap<&str, &str> = l1.iter().map(|(p, v)| (p.as_str(), v.as_str())).collect();
                for (p, v) in &l0 {
                    if p == "crc" {
                        continue;
                    }
                    let changed = m1.get(p.as_str()).map_or(true, |v2| v2 != v);
                    if !changed {
                        continue;
                    }
                    let owners: Vec<&expect::Item> = exp
                        .items
                        .iter()
                        .filter(|it| {
                            if it.path == "crc" || it.path == "df" {
                                return false;
                            }
                            if matches!(it.want, expect::Want::Name(_)) {
                                // a dispatch item owns the variant name only, not the variant's contents
                                return p == &format!("{}#", it.path);
                            }
                            p == &it.path || p.starts_with(&format!("{}.", it.path)) || p == &format!("{}#", it.path)
                        })
                        .collect();
                    if owners.is_empty() {
                        continue; // a field no property pins (spare bits, raw payload bytes)
                    }
                    if owners.iter().any(|it| it.bits.0 <= bit && bit <= it.bits.1) {
                        continue;
                    }
                    let it = owners[0];
                    col.add(Finding {
                        prop: it.prop.to_string(),
                        sig: format!("{}|foreign_bit:{}|{}", it.prop, it.clause, exp.class),
                        detail: format!("{p} changed from {v} to {:?} when frame bit {bit} was flipped; the field is bits {}..={}", m1.get(p.as_str()), it.bits.0, it.bits.1),
                        input: json!({"frame_hex": hex(&base), "flipped_bit": bit}),
                    });
                }
            }
        }
    })
}

fn classes_where(f: impl Fn(&ClassSpec) -> bool) -> Vec<ClassSpec> {
    gen::all_classes().into_iter().filter(|c| f(c)).collect()
}

fn es_classes_tc(tcs: &[u8]) -> Vec<ClassSpec> {
    classes_where(|c| (c.df == 17 || c.df == 18) && c.tc.map_or(false, |t| tcs.contains(&t)))
}

// ------------------------------------------------------------------ per property

/// `--replay <file>`: judge only the input recorded in a replay file of this property.
fn replay(ctx: &Ctx, path: &str) -> i32 {
    let mut col = Collector::new();
    let v: serde_json::Value = match std::fs::read_to_string(path).ok().and_then(|t| serde_json::from_str(&t).ok()) {
        Some(v) => v,
        None => {
            println!("INCONCLUSIVE property={} replay file {path} not readable", ctx.prop);
            return 2;
        }
    };
    let mut n = 0;
    for key in ["frame_hex", "base_hex"] {
        if let Some(h) = v["input"][key].as_str() {
            if let Some(bytes) = vref::bits::unhex(h) {
                let (exp, o) = obs::judge(&ctx.g, &mut col, &bytes);
                n += 1;
                println!("replay {key}={h} class={} expected={:?} observed={}", exp.class, exp.verdict, match &o.res { Res::Ok(ok) => ok.debug.clone(), Res::Err(e) => format!("Err({e})"), Res::Panic { loc, .. } => format!("panic at {loc}") });
                if let Some(b) = v["input"]["flipped_bit"].as_u64() {
                    let mut m = bytes.clone();
                    flipbit(&mut m, b as usize);
                    obs::judge(&ctx.g, &mut col, &m);
                }
            }
        }
    }
    if n == 0 {
        println!("INCONCLUSIVE property={} the replay file holds no frame", ctx.prop);
        return 2;
    }
    let info = ctx.info("exploration", "replay of one recorded input", &[], 1);
    col.sample(v["input"].clone());
    let distinct = col.distinct.len().max(2) as u64;
    crate::collect::finish(&info, &col, n, distinct, false, json!({"replay_of": path}))
}

pub fn run(ctx: &Ctx) -> i32 {
    if let Some(p) = ctx.flag("--replay") {
        return replay(ctx, &p);
    }
    let mut col = Collector::new();
    let mut exhaustive = false;
    let mut extra = json!({});
    let rule: String;
    let assumptions: Vec<&str> = vec![
        "reference model vref (written from Annex 10 / DO-260B / ICAO 9871, validated by its self-check) is the oracle",
        "observation goes through derive(Debug) output of the decoded frame and the public API only",
        "release profile with overflow-checks on, as shipped by the repository",
    ];
    match ctx.prop.as_str() {
        "C01" => {
            rule = "bytes -> Frame::from_bytes under panic/allocation/CPU-time monitors, then Debug, Display, calculate(), get_position on ordered pairs and Airplanes::action with hostile receivers; distinct = distinct byte strings (64-bit hash), exact up to 4M then lower bound; every judged execution is non-trivial (any input may panic)".into();
            c01(ctx, &mut col, &mut extra);
        }
        "C02" => {
            rule = "all 32 DF codes x all lengths 0..=32 x random payloads; truncation at every length; trailing-garbage differential; type-31 reserved/version grid under DF17 and every CF of DF18; distinct = distinct byte strings".into();
            c02(ctx, &mut col, &mut extra);
            exhaustive = false;
        }
        "C03" => {
            rule = "frame.crc vs bit-serial polynomial division on random/structured frames of every format; constructed valid squitters, DF11 with every II/SI code, AP formats with random addresses; error patterns (weight<=5, bursts<=24) applied to valid squitters and decoded by the real code; distinct = distinct byte strings".into();
            c03(ctx, &mut col, &mut extra);
        }
        "C04" => {
            rule = "every value of every header field x random rest; CA/CF x type code x subtype grid for DF17/18; DF20/21 x first MB byte; walking-bit differential; ICAO text round trip over all 2^24 addresses (exhaustive sub-space); distinct = distinct byte strings + addresses".into();
            c04(ctx, &mut col, &mut extra);
        }
        "C06" => {
            rule = "all 8192 13-bit codes in DF0/4/16/20 and all 4096 12-bit codes in type codes 9-18,20-22 under DF17 and DF18, each with K random surroundings; exhaustive over (carrier, code); distinct = distinct byte strings".into();
            c06(ctx, &mut col, &mut extra);
            exhaustive = true;
        }
        "C07" => {
            rule = "type-19 frames: direction bits x 10-bit components (exhaustive 2^22 in thorough, stride+edges in quick) x subtypes x rate codes; all 2^11 rate codes; airspeed subtypes; all NACv / difference codes; distinct = distinct byte strings".into();
            c07(ctx, &mut col, &mut extra);
            exhaustive = ctx.thorough();
        }
        "C08" => {
            rule = "every 6-bit code at each of the 8 positions, all pairs of positions x 64^2 codes (thorough), random strings; carriers: types 1-4 x category 0-7 under DF17/DF18 and BDS 2,0 under DF20/21; distinct = distinct byte strings".into();
            c08(ctx, &mut col, &mut extra);
        }
        "C09" => {
            rule = "all 8192 identity codes x 3 carriers (DF5, DF21, type 28) x K surroundings; cross-carrier agreement per code; all 64 subtype/emergency pairs; distinct = distinct byte strings".into();
            c09(ctx, &mut col, &mut extra);
            exhaustive = true;
        }
        "C10" => {
            rule = "field sweeps (every value of every interpreted field, other bits random) and walking-bit differential for surface/airborne position, target state, operational status, BDS 1,0 under DF17, DF18 (all CF), DF20/21; full 2^17 CPR sweeps in thorough; dispatch table over all 32 type codes x subtypes; distinct = distinct byte strings".into();
            c10(ctx, &mut col, &mut extra);
        }
        "C11" => {
            rule = "Display of every accepted frame vs the per-type template instantiated from the frame's own Debug values; all classes x field sweeps so every branch of the renderer is taken with both outcomes; pinned README/test strings reproduced; distinct = distinct byte strings".into();
            c11(ctx, &mut col, &mut extra);
        }
        _ => unreachable!(),
    }
    // Thorough tier: the property's own workload again with fresh random draws (the exhaustive
    // sub-spaces are the same, their random surroundings differ), as many rounds as fit in a few
    // minutes: a trigger that needs two independent fields to take particular values at once
    // gets rounds x samples chances.
    if ctx.thorough() {
        type W0 = fn(&Ctx, &mut Collector, &mut serde_json::Value);
        let own: Option<W0> = match ctx.prop.as_str() {
            "C01" => Some(c01),
            "C02" => Some(c02),
            "C03" => Some(c03),
            "C04" => Some(c04),
            "C06" => Some(c06),
            "C07" => Some(c07),
            "C08" => Some(c08),
            "C09" => Some(c09),
            "C10" => Some(c10),
            "C11" => Some(c11),
            _ => None,
        };
        if let Some(f) = own {
            let t0 = std::time::Instant::now();
            let mut rounds = 1u64;
            let budget = std::env::var("VERIF_THOROUGH_SECS").ok().and_then(|v| v.parse().ok()).unwrap_or(240u64);
            while t0.elapsed().as_secs() < budget && rounds < 64 && col.by_sig.is_empty() {
                ctx.salt.store(rounds, std::sync::atomic::Ordering::Relaxed);
                let mut dummy = json!({});
                f(ctx, &mut col, &mut dummy);
                rounds += 1;
            }
            ctx.salt.store(0, std::sync::atomic::Ordering::Relaxed);
            if let Some(o) = extra.as_object_mut() {
                o.insert("thorough_rounds".into(), json!(rounds));
            }
        }
    }
    // Companion workloads: the frame judge evaluates the clauses of every decoder property on
    // every frame, but a finding only counts in the run of its own property. So each decoder check
    // also drives the quick-tier workloads of the other decoder properties (blank identifications,
    // every altitude code, every identity code, ...): what one property's workload reaches is
    // seen by all of them.
    if ctx.prop != "C05" {
        let own_exhaustive = exhaustive;
        ctx.lite.store(true, std::sync::atomic::Ordering::Relaxed);
        let before = col.counters.get("frames_judged").copied().unwrap_or(0);
        let mut dummy = json!({});
        type W = fn(&Ctx, &mut Collector, &mut serde_json::Value);
        let all: [(&str, W); 9] = [("C02", c02), ("C03", c03), ("C04", c04), ("C06", c06), ("C07", c07), ("C08", c08), ("C09", c09), ("C10", c10), ("C11", c11)];
        for (p, f) in all {
            if p != ctx.prop {
                f(ctx, &mut col, &mut dummy);
            }
        }
        ctx.lite.store(false, std::sync::atomic::Ordering::Relaxed);
        let after = col.counters.get("frames_judged").copied().unwrap_or(0);
        col.count("companion_frames_judged", after - before);
        exhaustive = own_exhaustive;
        if let Some(o) = extra.as_object_mut() {
            o.insert("companion_workloads".into(), json!("quick-tier workloads of C02-C04 and C06-C11 (those of the other decoder properties), judged against this property's clauses as well"));
        }
    }
    // Every frame these workloads generate is one the property quantifies over ("every code ...
    // decodes to ..."): a frame of a supported format and full length that the decoder refuses
    // is a violation of the property whose workload produced it, not only of C02.
    if ["C04", "C06", "C07", "C08", "C09", "C10", "C11"].contains(&ctx.prop.as_str()) {
        let extra: Vec<Finding> = col
            .by_sig
            .iter()
            .filter(|(k, _)| k.starts_with("C02|rejects_valid|"))
            .map(|(k, (f, _))| {
                let class = k.trim_start_matches("C02|rejects_valid|");
                Finding { prop: ctx.prop.clone(), sig: format!("{}|frame_not_decoded|{}", ctx.prop, class), detail: format!("a frame this property quantifies over was rejected by the decoder: {}", f.detail), input: f.input.clone() }
            })
            .collect();
        for f in extra {
            col.add(f);
        }
        // ... and a frame on which the decoder (or an operation on the decoded frame) panics is not
        // decoded either: C01 reports the panic, the property whose workload produced the frame
        // reports that the frame it quantifies over was lost
        let lost: Vec<Finding> = col
            .by_sig
            .iter()
            .filter(|(k, _)| k.starts_with("C01|panic_from_bytes|"))
            .map(|(k, (f, _))| {
                let loc = k.trim_start_matches("C01|panic_from_bytes|");
                Finding { prop: ctx.prop.clone(), sig: format!("{}|decoder_panics|{}", ctx.prop, loc), detail: format!("the decoder panicked on a frame this property quantifies over: {}", f.detail), input: f.input.clone() }
            })
            .collect();
        for f in lost {
            col.add(f);
        }
    }
    let evals = col.counters.get("frames_judged").copied().unwrap_or(0) + col.counters.get("extra_evaluations").copied().unwrap_or(0);
    let distinct = col.distinct.len() as u64;
    let info = ctx.info("exploration", &rule, &assumptions, 1000);
    crate::collect::finish(&info, &col, evals, distinct, exhaustive, extra)
}

// ---- C01
fn c01(ctx: &Ctx, col: &mut Collector, extra: &mut serde_json::Value) {
    // (a) all DF codes x all lengths
    let n_payload = ctx.q(40u64, 2000);
    let c = par_units(ctx, "c01-grid", 32 * 33, |i, r, col, slot| {
        let df = (i / 33) as u8;
        let len = (i % 33) as usize;
        for _ in 0..n_payload {
            let mut m = vec![0u8; len];
            r.fill(&mut m);
            if len > 0 {
                setbits(&mut m, 1, 5, u64::from(df));
            }
            slot.begin(|| hex(&m));
            obs::judge(&ctx.g, col, &m);
            slot.end();
        }
        col.count("df_len_cells", 1);
    });
    col.merge(c);
    // (b) field sweeps of every layout
    let classes = gen::all_classes();
    col.merge(class_sweep(ctx, "c01-sweep", &classes, &[], ctx.q(6, 10), ctx.q(8, 64), 1));
    // (c) random frames
    col.merge(random_frames(ctx, "c01-rand", ctx.q(300_000, 20_000_000)));
    // (d) corpus
    col.merge(corpus_mutations(ctx, ctx.q(200, 5000)));
    // (e) pairing and tracker on everything that decodes
    col.merge(c01_ops(ctx));
    // (f) long flights: thousands of accepted position reports of one aircraft (growing track)
    let c = par_units(ctx, "c01-marathon", ctx.q(3, 24), |_, r, col, slot| {
        let h = crate::trk::gen_marathon(r);
        let mut planes = rsadsb_common::Airplanes::new();
        slot.begin(|| "tracker marathon".to_string());
        for (k, op) in h.ops.iter().enumerate() {
            if let crate::trk::Op::Frame(m) = op {
                if let Ok(Ok(f)) = mon::guarded(|| adsb_deku::Frame::from_bytes(m)) {
                    col.count("tracker_actions", 1);
                    col.count("extra_evaluations", 1);
                    if let Err((loc, msg)) = mon::guarded(|| {
                        let _ = planes.action(f, h.receiver, h.max_range);
                    }) {
                        col.add(fnd("C01", "panic_tracker_action", &loc, format!("{msg} at position report #{k} of one aircraft"), crate::trk::history_json(&h)));
                        break;
                    }
                }
            }
        }
        if let Err((loc, msg)) = mon::guarded(|| {
            let _ = planes.to_string();
            let _ = planes.all_position();
        }) {
            col.add(fnd("C01", "panic_tracker_views", &loc, msg, json!({"history": "marathon"})));
        }
        slot.end();
    });
    col.merge(c);
    // (h) "of any length": frames of every class followed by a long tail (1 KiB ... 1 MiB). The tail
    // must neither change the result nor cost memory: the allocation limit is the same small constant
    let classes_h = gen::all_classes();
    let c = par_units(ctx, "c01-long", ctx.q(256, 4096), |i, r, col, slot| {
        let spec = &classes_h[(i as usize * 7919) % classes_h.len()];
        let mut m = spec.make(r);
        let tail = *r.pick(&[1usize << 10, 1 << 14, 1 << 16, 1 << 20]);
        let old = m.len();
        m.resize(old + tail, 0);
        match r.below(3) {
            0 => {}
            1 => r.fill(&mut m[old..]),
            _ => {
                for (k, b) in m[old..].iter_mut().enumerate() {
                    *b = if k % 14 == 0 { 0x8D } else { 0xFF };
                }
            }
        }
        slot.begin(|| format!("class {spec:?} with a tail of {tail} bytes"));
        obs::judge(&ctx.g, col, &m);
        slot.end();
        col.count("long_inputs", 1);
    });
    col.merge(c);
    // (g) identification payloads made of one repeated character (eight spaces, eight '#', ...)
    let c = par_units(ctx, "c01-ident", 64, |i, r, col, _| {
        for carrier in 0..4u64 {
            for lead in 0..=8usize {
                // `lead` characters of code i followed by letters, and the reverse
                for rev in [false, true] {
                    let mut chars = [1u8 + (i as u8 % 26); 8];
                    for (k, c) in chars.iter_mut().enumerate() {
                        let inside = if rev { k >= 8 - lead } else { k < lead };
                        if inside {
                            *c = i as u8;
                        }
                    }
                    let m = ident_frame(r, &chars, carrier);
                    obs::judge(&ctx.g, col, &m);
                }
            }
        }
    });
    col.merge(c);
    *extra = json!({"operations": ["from_bytes", "Debug", "Display", "calculate", "get_position(all ordered pairs of a rolling pool)", "Airplanes::action/prune/aircraft_details/all_position/Display"]});
}

/// get_position on all ordered pairs of a rolling pool of decoded position
/// reports, and the tracker fed with every decodable frame under hostile
/// receiver positions / ranges.
fn c01_ops(ctx: &Ctx) -> Collector {
    use rsadsb_common::Airplanes;
    let receivers: Vec<((f64, f64), f64)> = vec![
        ((0.0, 0.0), 500.0),
        ((90.0, 0.0), 500.0),
        ((-90.0, 180.0), 1.0),
        ((45.0, 179.999), 0.0),
        ((-45.0, -180.0), 1e9),
        ((89.999, -179.999), f64::MAX),
        ((0.0, 0.0), f64::INFINITY),
        ((52.0, 4.0), 50.0),
        ((f64::NAN, 0.0), 500.0),
        ((1e300, -1e300), 500.0),
    ];
    let units = ctx.q(64u64, 2048);
    let per = ctx.q(1500u64, 6000);
    par_units(ctx, "c01-ops", units, |u, r, col, slot| {
        // every fourth unit with logging switched on for its thread (dropped at the end of the unit)
        let _log = if u % 4 == 3 { Some(tracing::subscriber::set_default(crate::logsub::Sink)) } else { None };
        let (rx, range) = receivers[(u as usize) % receivers.len()];
        let mut planes = Airplanes::new();
        let mut pool: Vec<Altitude> = Vec::new();
        let addrs: Vec<u32> = (0..r.range(1, 6)).map(|_| (r.next() & 0xFF_FFFF) as u32).collect();
        for k in 0..per {
            // position-heavy traffic from few addresses, mixed with arbitrary frames
            let m: Vec<u8> = if r.chance(0.6) {
                let mut me = [0u8; 7];
                r.fill(&mut me);
                let tc = *r.pick(&[9u8, 11, 18, 20, 22, 19, 1, 4, 28, 29, 31, 0, 5]);
                setbits(&mut me, 1, 5, u64::from(tc));
                if r.chance(0.5) {
                    // edge CPR values
                    let e = [0u64, 1, 65535, 65536, 65537, 131071];
                    setbits(&mut me, 23, 39, *r.pick(&e));
                    setbits(&mut me, 40, 56, *r.pick(&e));
                }
                let df = if r.chance(0.8) { 17 } else { 18 };
                encode::long_frame(df, r.below(8) as u8, *r.pick(&addrs), &me).to_vec()
            } else {
                gen::random_buffer(r)
            };
            slot.begin(|| format!("tracker history unit {u} step {k} frame {}", hex(&m)));
            let fr = mon::guarded(|| adsb_deku::Frame::from_bytes(&m));
            let frame = match fr {
                Ok(Ok(f)) => f,
                Ok(Err(_)) => {
                    slot.end();
                    continue;
                }
                Err((loc, msg)) => {
                    col.add(fnd("C01", "panic_from_bytes", &loc, msg, json!({"frame_hex": hex(&m)})));
                    slot.end();
                    continue;
                }
            };
            // pairing: all ordered pairs with the pool
            let alt = match &frame.df {
                adsb_deku::DF::ADSB(a) => match &a.me {
                    adsb_deku::adsb::ME::AirbornePositionBaroAltitude(x) | adsb_deku::adsb::ME::AirbornePositionGNSSAltitude(x) => Some(*x),
                    _ => None,
                },
                adsb_deku::DF::TisB { cf, .. } => match &cf.me {
                    adsb_deku::adsb::ME::AirbornePositionBaroAltitude(x) | adsb_deku::adsb::ME::AirbornePositionGNSSAltitude(x) => Some(*x),
                    _ => None,
                },
                _ => None,
            };
            if let Some(a) = alt {
                for b in pool.iter() {
                    for (x, y) in [(&a, b), (b, &a)] {
                        col.count("position_pairs", 1);
                        if let Err((loc, msg)) = mon::guarded(|| rcpr::get_position((x, y))) {
                            col.add(fnd("C01", "panic_get_position", &loc, format!("{msg}: pair {x:?} / {y:?}"), json!({"pair": [format!("{x:?}"), format!("{y:?}")]})));
                        }
                    }
                }
                if pool.len() >= 64 {
                    let i = r.below(64) as usize;
                    pool[i] = a;
                } else {
                    pool.push(a);
                }
            }
            // tracker
            col.count("tracker_actions", 1);
            let res = mon::guarded(|| {
                let _ = planes.action(frame, rx, range);
            });
            if let Err((loc, msg)) = res {
                col.add(fnd("C01", "panic_tracker_action", &loc, format!("{msg}: receiver {rx:?} range {range} frame {}", hex(&m)), json!({"frame_hex": hex(&m), "receiver": format!("{rx:?}"), "range": format!("{range}")})));
                planes = Airplanes::new();
            }
            if k % 4 == 1 {
                // the same frame once more with the receiver exactly on, or exactly opposite, a
                // published position (the numerically delicate ends of the distance formula)
                let pos = planes.iter().filter_map(|(_, s)| s.coords.position).nth((k as usize / 4) % 3);
                if let (Some(p), Ok(Ok(again))) = (pos, mon::guarded(|| adsb_deku::Frame::from_bytes(&m))) {
                    let rx2 = if k % 8 == 1 { (p.latitude, p.longitude) } else { (-p.latitude, if p.longitude >= 0.0 { p.longitude - 180.0 } else { p.longitude + 180.0 }) };
                    col.count("tracker_actions", 1);
                    let res = mon::guarded(|| {
                        let _ = planes.action(again, rx2, range);
                    });
                    if let Err((loc, msg)) = res {
                        col.add(fnd("C01", "panic_tracker_action", &loc, format!("{msg}: receiver {rx2:?} (on / opposite a published position) range {range} frame {}", hex(&m)), json!({"frame_hex": hex(&m), "receiver": format!("{rx2:?}"), "range": format!("{range}")})));
                        planes = Airplanes::new();
                    }
                }
            }
            if k % 64 == 0 {
                let res = mon::guarded(|| {
                    let keys: Vec<ICAO> = planes.keys().copied().collect();
                    for key in keys {
                        let _ = planes.aircraft_details(key);
                    }
                    let _ = planes.all_position();
                    let _ = planes.to_string();
                    let _ = format!("{planes:?}");
                    if k % 512 == 0 {
                        // thresholds from "everything" to "never", incl. values beyond what a timestamp can add
                        planes.prune(*r.pick(&[0u64, 100_000, 100_000, u64::MAX, 1 << 63, i64::MAX as u64, u64::from(u32::MAX)]));
                    }
                });
                col.count("tracker_view_calls", 1);
                if let Err((loc, msg)) = res {
                    col.add(fnd("C01", "panic_tracker_views", &loc, msg, json!({"frame_hex": hex(&m)})));
                    planes = Airplanes::new();
                }
            }
            slot.end();
            col.count("extra_evaluations", 1);
        }
        // raw pairs on a coarse grid of latitude codes (multiples of 2^12: the poles - even 0 with
        // odd 98304 / 32768 - the equator and the quarter points are on it), both orders
        if u == 0 {
            for ka in 0..32u32 {
                for kc in 0..32u32 {
                    for &b in &[0u32, 65536, 12345] {
                        for &d in &[0u32, 65536, 99999] {
                            for (f1, f2) in [(CPRFormat::Even, CPRFormat::Odd), (CPRFormat::Odd, CPRFormat::Even)] {
                                let x = Altitude { odd_flag: f1, lat_cpr: ka * 4096, lon_cpr: b, ..Altitude::default() };
                                let y = Altitude { odd_flag: f2, lat_cpr: kc * 4096, lon_cpr: d, ..Altitude::default() };
                                col.count("position_pairs", 1);
                                if let Err((loc, msg)) = mon::guarded(|| rcpr::get_position((&x, &y))) {
                                    col.add(fnd("C01", "panic_get_position", &loc, format!("{msg}: pair {x:?} / {y:?}"), json!({"pair": [ka * 4096, b, kc * 4096, d]})));
                                }
                            }
                        }
                    }
                }
            }
        }
        // raw pairs at the numeric edges
        let e = [0u32, 1, 65535, 65536, 65537, 131070, 131071];
        for &a in &e {
            for &b in &e {
                for &c in &e {
                    for &d in &e {
                        for (f1, f2) in [(CPRFormat::Even, CPRFormat::Odd), (CPRFormat::Odd, CPRFormat::Even), (CPRFormat::Even, CPRFormat::Even), (CPRFormat::Odd, CPRFormat::Odd)] {
                            let x = Altitude { odd_flag: f1, lat_cpr: a, lon_cpr: b, ..Altitude::default() };
                            let y = Altitude { odd_flag: f2, lat_cpr: c, lon_cpr: d, ..Altitude::default() };
                            if u == 0 {
                                col.count("position_pairs", 1);
                                if let Err((loc, msg)) = mon::guarded(|| rcpr::get_position((&x, &y))) {
                                    col.add(fnd("C01", "panic_get_position", &loc, format!("{msg}: pair {x:?} / {y:?}"), json!({"pair": [a, b, c, d]})));
                                }
                            }
                        }
                    }
                }
            }
        }
    })
}

// ---- C02
fn c02(ctx: &Ctx, col: &mut Collector, extra: &mut serde_json::Value) {
    let n_payload = ctx.q(60u64, 4000);
    let c = par_units(ctx, "c02-grid", 32 * 33, |i, r, col, slot| {
        let df = (i / 33) as u8;
        let len = (i % 33) as usize;
        for _ in 0..n_payload {
            let mut m = vec![0u8; len];
            r.fill(&mut m);
            if len > 0 {
                setbits(&mut m, 1, 5, u64::from(df));
                if (df == 17 || df == 18) && len >= 11 && r.chance(0.7) {
                    // keep the (rare) type-31 layout rejections from dominating
                    if getbits(&m, 33, 37) == 31 {
                        gen::make_opstatus_valid(&mut m, r);
                    }
                }
            }
            slot.begin(|| hex(&m));
            obs::judge(&ctx.g, col, &m);
            slot.end();
        }
        col.count("df_len_cells", 1);
    });
    col.merge(c);
    // sparse buffers: all bits but the format clear / set, one further bit or byte set, at every
    // length (what a "noise filter" would take for an empty message is a frame like any other)
    let c = par_units(ctx, "c02-sparse", 32, |i, _r, col, slot| {
        let df = i as u8;
        for len in 0..=32usize {
            for fill in [0x00u8, 0xFF] {
                let mut base = vec![fill; len];
                if len > 0 {
                    setbits(&mut base, 1, 5, u64::from(df));
                }
                let mut variants = vec![base.clone()];
                for k in 1..len {
                    let mut v = base.clone();
                    v[k] ^= 0xFF;
                    variants.push(v);
                    let mut v = base.clone();
                    v[k] ^= 1 << (k % 8);
                    variants.push(v);
                }
                for m in variants {
                    slot.begin(|| hex(&m));
                    obs::judge(&ctx.g, col, &m);
                    slot.end();
                    col.count("sparse_buffers", 1);
                }
            }
        }
    });
    col.merge(c);
    // truncation at every length and trailing-garbage differential on frames of every class
    let classes = gen::all_classes();
    let reps = ctx.q(2u64, 40);
    let c = par_units(ctx, "c02-trunc", classes.len() as u64, |i, r, col, slot| {
        let cs = classes[i as usize];
        for _ in 0..reps {
            let m = cs.make(r);
            let need = frame_bits(cs.df).unwrap() / 8;
            let (exp, o) = obs::judge(&ctx.g, col, &m);
            for k in 0..need {
                slot.begin(|| hex(&m[..k]));
                obs::judge(&ctx.g, col, &m[..k]);
                slot.end();
                col.count("truncations", 1);
            }
            if let Res::Ok(ok) = &o.res {
                for _ in 0..3 {
                    let mut t = m.clone();
                    let extra = r.range(1, 18) as usize;
                    let mut g = vec![0u8; extra];
                    r.fill(&mut g);
                    t.extend(g);
                    slot.begin(|| hex(&t));
                    let o2 = obs::observe(&t);
                    slot.end();
                    col.count("trailing_garbage_differentials", 1);
                    col.seen(&t);
                    match &o2.res {
                        Res::Ok(ok2) if ok2.debug == ok.debug && ok2.crc == ok.crc && ok2.display == ok.display => {}
                        Res::Ok(ok2) => col.add(fnd("C02", "trailing_bytes_influence", &exp.class, format!("decode differs with bytes after the frame: {} vs {}", ok.debug, ok2.debug), json!({"frame_hex": hex(&t), "frame_bytes": need}))),
                        Res::Err(e) => col.add(fnd("C02", "trailing_bytes_influence", &exp.class, format!("frame accepted alone but rejected ({e}) with trailing bytes"), json!({"frame_hex": hex(&t), "frame_bytes": need}))),
                        Res::Panic { loc, msg, .. } => col.add(fnd("C01", "panic_from_bytes", loc, msg.clone(), json!({"frame_hex": hex(&t)}))),
                    }
                }
            }
        }
    });
    col.merge(c);
    // short formats inside long buffers with varied tail: covered by `trailing` above for df 0/4/5/11.
    // type 31 grid: subtype x version x reserved-bit patterns, DF17 (all CA) and DF18 (all CF)
    let reps = ctx.q(2u64, 64);
    let c = par_units(ctx, "c02-ops", 2 * 8 * 8 * 8, |i, r, col, slot| {
        let df = if i & 1 == 0 { 17u8 } else { 18 };
        let h = ((i >> 1) & 7) as u8;
        let st = ((i >> 4) & 7) as u8;
        let ver = (i >> 7) & 7;
        for pat in 0..64u64 {
            for _ in 0..reps {
                let cs = ClassSpec { df, hdr3: Some(h), tc: Some(31), st: Some(st), bds: None };
                let mut m = cs.make(r);
                // random everything, then force the six "must be zero" bits and the version
                r.fill(&mut m[5..11]);
                setbits(&mut m, 38, 40, u64::from(st));
                setbits(&mut m, 32 + 9, 32 + 10, pat & 3);
                setbits(&mut m, 32 + 13, 32 + 14, (pat >> 2) & 3);
                setbits(&mut m, 32 + 25, 32 + 26, (pat >> 4) & 3);
                setbits(&mut m, 32 + 41, 32 + 43, ver);
                crc::seal(&mut m, 112, 0);
                slot.begin(|| hex(&m));
                obs::judge(&ctx.g, col, &m);
                slot.end();
                col.count("type31_grid", 1);
            }
        }
    });
    col.merge(c);
    col.merge(random_frames(ctx, "c02-rand", ctx.q(200_000, 10_000_000)));
    col.merge(corpus_mutations(ctx, ctx.q(100, 2000)));
    *extra = json!({"df_len_grid": "32 x 33 exhaustive", "type31_grid": "2 DF x 8 CA/CF x 8 subtypes x 8 versions x 64 reserved-bit patterns, exhaustive"});
}

// ---- C03
fn check_crc_zero_pattern(ctx: &Ctx, col: &mut Collector, base: &[u8], m: &[u8], what: &str) {
    // a corrupted squitter may be rejected or decode as another format; only Ok with crc 0 is wrong
    let r = mon::guarded(|| adsb_deku::Frame::from_bytes(m));
    col.count("error_patterns_decoded", 1);
    match r {
        Ok(Ok(f)) => {
            if f.crc == 0 {
                // cross-check with the reference: for a format change (DF bits hit) the frame length
                // and hence the syndrome window changes; crc 0 is wrong in any case for <=5 flips / bursts <=24
                col.add(fnd("C03", "corruption_reported_valid", what, format!("corrupted squitter reported with checksum 0 (base {})", hex(base)), json!({"frame_hex": hex(m), "base_hex": hex(base)})));
            }
            let _ = ctx;
        }
        Ok(Err(_)) => {}
        Err((loc, msg)) => col.add(fnd("C01", "panic_from_bytes", &loc, msg, json!({"frame_hex": hex(m)}))),
    }
}

fn valid_squitter(r: &mut Rng) -> [u8; 14] {
    let mut me = [0u8; 7];
    r.fill(&mut me);
    let tc = *r.pick(&[0u8, 1, 4, 5, 9, 11, 18, 19, 20, 23, 24, 28, 29, 30]);
    setbits(&mut me, 1, 5, u64::from(tc));
    let df = if r.chance(0.7) { 17 } else { 18 };
    encode::long_frame(df, *r.pick(&[0u8, 4, 5, 6, 7]), (r.next() & 0xFF_FFFF) as u32, &me)
}

fn c03(ctx: &Ctx, col: &mut Collector, extra: &mut serde_json::Value) {
    // (a) table coverage: every byte value at every divided byte position, all formats
    let reps = ctx.q(4u64, 64);
    let dfs: Vec<u8> = vec![0, 4, 5, 11, 16, 17, 18, 19, 20, 21, 24, 25, 26, 27, 28, 29, 30, 31];
    let c = par_units(ctx, "c03-table", (dfs.len() * 14) as u64, |i, r, col, slot| {
        let df = dfs[i as usize / 14];
        let pos = i as usize % 14;
        let n = frame_bits(df).unwrap() / 8;
        if pos >= n {
            return;
        }
        for v in 0..256u64 {
            for _ in 0..reps {
                let mut m = vec![0u8; n];
                r.fill(&mut m);
                setbits(&mut m, 1, 5, u64::from(df));
                if pos > 0 {
                    m[pos] = v as u8;
                } else {
                    setbits(&mut m, 6, 8, v & 7);
                }
                if (df == 17 || df == 18) && getbits(&m, 33, 37) == 31 {
                    gen::make_opstatus_valid(&mut m, r);
                    if pos > 0 {
                        m[pos] = v as u8;
                    }
                }
                // longer buffer sometimes: the window must not move
                if r.chance(0.2) {
                    m.push(r.next() as u8);
                }
                slot.begin(|| hex(&m));
                obs::judge(&ctx.g, col, &m);
                slot.end();
            }
        }
        col.count("byte_position_cells", 1);
    });
    col.merge(c);
    // (b) random frames
    col.merge(random_frames(ctx, "c03-rand", ctx.q(300_000, 20_000_000)));
    // (c) constructed valid frames: the syndrome must be 0 / the code / the address
    let n = ctx.q(20_000u64, 2_000_000);
    let c = par_units(ctx, "c03-valid", 64, |_, r, col, slot| {
        for _ in 0..n / 64 {
            let kind = r.below(4);
            let (m, want, what): (Vec<u8>, u32, &str) = match kind {
                0 => (valid_squitter(r).to_vec(), 0, "squitter"),
                1 => {
                    let ii = r.below(128) as u32;
                    (encode::all_call(r.below(8) as u8, (r.next() & 0xFF_FFFF) as u32, ii).to_vec(), ii, "df11")
                }
                2 => {
                    let a = (r.next() & 0xFF_FFFF) as u32;
                    (encode::short_ap(*r.pick(&[0u8, 4, 5]), (r.next() & 0x7FF_FFFF) as u32, a).to_vec(), a, "ap_short")
                }
                _ => {
                    let a = (r.next() & 0xFF_FFFF) as u32;
                    let mut p = [0u8; 7];
                    r.fill(&mut p);
                    (encode::long_ap(*r.pick(&[16u8, 20, 21]), (r.next() & 0x7FF_FFFF) as u32, &p, a).to_vec(), a, "ap_long")
                }
            };
            slot.begin(|| hex(&m));
            let (_e, o) = obs::judge(&ctx.g, col, &m);
            slot.end();
            col.count("constructed_valid_frames", 1);
            if let Res::Ok(ok) = &o.res {
                if ok.crc != want {
                    col.add(fnd("C03", "constructed_frame_checksum", what, format!("checksum {:06x} but the frame was sealed for {:06x}", ok.crc, want), json!({"frame_hex": hex(&m)})));
                }
                // the same frame as the n-th frame of a stream, decoded through a reader
                let plen = r.range(0, 30) as usize;
                let mut stream = vec![0u8; plen];
                r.fill(&mut stream);
                stream.extend_from_slice(&m);
                let mut cur = std::io::Cursor::new(&stream[..]);
                cur.set_position(plen as u64);
                col.count("constructed_valid_frames_via_reader", 1);
                match mon::guarded(|| adsb_deku::Frame::from_reader(&mut cur)) {
                    Ok(Ok(f)) if f.crc == want => {}
                    Ok(Ok(f)) => col.add(fnd("C03", "constructed_frame_checksum_via_reader", what, format!("checksum {:06x} from from_reader() at stream offset {plen}, the frame was sealed for {:06x}", f.crc, want), json!({"frame_hex": hex(&m), "prefix_len": plen}))),
                    Ok(Err(e)) => col.add(fnd("C03", "constructed_frame_rejected_via_reader", what, format!("from_reader() at stream offset {plen}: {e:?}"), json!({"frame_hex": hex(&m), "prefix_len": plen}))),
                    Err((loc, msg)) => col.add(fnd("C01", "panic_from_reader", &loc, msg, json!({"frame_hex": hex(&m)}))),
                }
            }
        }
    });
    col.merge(c);
    // every II/SI code explicitly
    for ii in 0..128u32 {
        let m = encode::all_call(5, 0xABCDEF, ii);
        let (_e, o) = obs::judge(&ctx.g, col, &m);
        if let Res::Ok(ok) = &o.res {
            if ok.crc != ii {
                col.add(fnd("C03", "constructed_frame_checksum", "df11", format!("checksum {:06x} for interrogator code {ii}", ok.crc), json!({"frame_hex": hex(&m)})));
            }
        }
    }
    // (d) error patterns on valid squitters, decoded by the real code
    let mut r0 = Rng::derive(ctx.seed, "c03-bases", 0);
    let bases: Vec<[u8; 14]> = (0..ctx.q(4, 8)).map(|_| valid_squitter(&mut r0)).collect();
    // weight <= 3 exhaustive per base (quick: 2 bases; thorough: 8)
    let c = par_units(ctx, "c03-w3", (bases.len() * 112) as u64, |i, _r, col, slot| {
        let base = bases[i as usize / 112];
        let b1 = i as usize % 112 + 1;
        let mut m1 = base;
        flipbit(&mut m1, b1);
        slot.begin(|| hex(&m1));
        check_crc_zero_pattern(ctx, col, &base, &m1, "weight1");
        for b2 in (b1 + 1)..=112 {
            let mut m2 = m1;
            flipbit(&mut m2, b2);
            check_crc_zero_pattern(ctx, col, &base, &m2, "weight2");
            for b3 in (b2 + 1)..=112 {
                let mut m3 = m2;
                flipbit(&mut m3, b3);
                check_crc_zero_pattern(ctx, col, &base, &m3, "weight3");
            }
        }
        slot.end();
    });
    col.merge(c);
    // weight 4 and 5: sampled in quick, exhaustive on one base in thorough
    if ctx.thorough() {
        let base = bases[0];
        let c = par_units(ctx, "c03-w45", 112 * 112, |i, _r, col, slot| {
            let b1 = i as usize / 112 + 1;
            let b2 = i as usize % 112 + 1;
            if b2 <= b1 {
                return;
            }
            let mut m2 = base;
            flipbit(&mut m2, b1);
            flipbit(&mut m2, b2);
            slot.begin(|| format!("weight-4/5 patterns from bits {b1},{b2} on {}", hex(&base)));
            for b3 in (b2 + 1)..=112 {
                let mut m3 = m2;
                flipbit(&mut m3, b3);
                for b4 in (b3 + 1)..=112 {
                    let mut m4 = m3;
                    flipbit(&mut m4, b4);
                    check_crc_zero_pattern(ctx, col, &base, &m4, "weight4");
                    for b5 in (b4 + 1)..=112 {
                        let mut m5 = m4;
                        flipbit(&mut m5, b5);
                        check_crc_zero_pattern(ctx, col, &base, &m5, "weight5");
                    }
                }
            }
            slot.end();
        });
        col.merge(c);
    } else {
        let c = par_units(ctx, "c03-w45s", 64, |_, r, col, _slot| {
            for _ in 0..10_000 {
                let base = *r.pick(&bases);
                let mut m = base;
                let w = r.range(4, 5);
                let mut used = vec![];
                while used.len() < w as usize {
                    let b = r.range(1, 112) as usize;
                    if !used.contains(&b) {
                        used.push(b);
                        flipbit(&mut m, b);
                    }
                }
                check_crc_zero_pattern(ctx, col, &base, &m, if w == 4 { "weight4" } else { "weight5" });
            }
        });
        col.merge(c);
    }
    // bursts: every offset, every length <= 24, every pattern for length <= 12 (thorough) / sampled
    let c = par_units(ctx, "c03-burst", (bases.len() * 112) as u64, |i, r, col, slot| {
        let base = bases[i as usize / 112];
        let off = i as usize % 112 + 1;
        slot.begin(|| format!("bursts at offset {off} on {}", hex(&base)));
        for len in 1..=24usize {
            if off + len - 1 > 112 {
                break;
            }
            let npat: u64 = if len <= 2 { 1 } else { 1u64 << (len - 2) };
            let exhaustive_here = len <= ctx.q(8, 16);
            let tries = if exhaustive_here { npat } else { ctx.q(24, 400) };
            for t in 0..tries {
                let inner = if exhaustive_here { t } else { r.next() & (npat - 1) };
                // burst = first and last bit flipped, inner bits by pattern
                let mut m = base;
                flipbit(&mut m, off);
                if len > 1 {
                    flipbit(&mut m, off + len - 1);
                }
                for k in 0..len.saturating_sub(2) {
                    if (inner >> k) & 1 == 1 {
                        flipbit(&mut m, off + 1 + k);
                    }
                }
                check_crc_zero_pattern(ctx, col, &base, &m, "burst");
                col.count("burst_patterns", 1);
            }
        }
        slot.end();
    });
    col.merge(c);
    let n_err = col.counters.get("error_patterns_decoded").copied().unwrap_or(0);
    col.count("extra_evaluations", n_err);
    *extra = json!({"byte_table": "every byte value at every divided byte position of every format", "weight_le3": "exhaustive per base frame", "weight_4_5": if ctx.thorough() { "exhaustive on one base frame" } else { "640000 sampled" }, "bursts": "every offset x every length <= 24; all inner patterns up to length 8 (quick) / 16 (thorough), sampled beyond", "base_frames": bases.iter().map(|b| hex(b)).collect::<Vec<_>>()});
}

// ---- C04
fn c04(ctx: &Ctx, col: &mut Collector, extra: &mut serde_json::Value) {
    let classes = gen::all_classes();
    // every header field value x random rest, and the CA/CF x TC x ST grid (the classes are that grid)
    col.merge(class_sweep(ctx, "c04-sweep", &classes, &["C04"], ctx.q(6, 8), ctx.q(6, 48), ctx.q(1, 4)));
    col.merge(class_random(ctx, "c04-grid", &classes, ctx.q(24, 600)));
    // DF20/21 x every first MB byte
    let c = par_units(ctx, "c04-mb", 2 * 256, |i, r, col, slot| {
        let df = if i < 256 { 20u8 } else { 21 };
        for _ in 0..ctx.q(8, 200) {
            let cs = ClassSpec { df, hdr3: None, tc: None, st: None, bds: Some((i % 256) as u8) };
            let m = cs.make(r);
            slot.begin(|| hex(&m));
            obs::judge(&ctx.g, col, &m);
            slot.end();
        }
    });
    col.merge(c);
    // walking bits on a thinner set of classes
    let wb: Vec<ClassSpec> = classes.iter().copied().filter(|c| c.df != 19).collect();
    col.merge(walking_bits(ctx, "c04-walk", &wb, ctx.q(1, 12)));
    // ICAO text: all 2^24 addresses
    let c = par_units(ctx, "c04-icao", 256, |i, _r, col, slot| {
        slot.begin(|| format!("ICAO text round trip block {i}"));
        let mut bad_fmt = 0u64;
        let mut bad_rt = 0u64;
        let mut first: Option<u32> = None;
        for lo in 0..65536u32 {
            let a = ((i as u32) << 16) | lo;
            let icao = ICAO([(a >> 16) as u8, (a >> 8) as u8, a as u8]);
            let s = icao.to_string();
            let want = format!("{a:06x}");
            if s != want {
                bad_fmt += 1;
                first.get_or_insert(a);
            }
            match ICAO::from_str(&s) {
                Ok(b) if b == icao => {}
                _ => {
                    bad_rt += 1;
                    first.get_or_insert(a);
                }
            }
        }
        slot.end();
        col.count("icao_text_addresses", 65536);
        col.count("extra_evaluations", 65536);
        if bad_fmt > 0 {
            col.add(fnd("C04", "icao_text_form", "to_string", format!("{bad_fmt} addresses in block {i:02x}xxxx not rendered as six lower-case hex digits, first {:06x}", first.unwrap()), json!({"address": first})));
        }
        if bad_rt > 0 {
            col.add(fnd("C04", "icao_text_round_trip", "from_str", format!("{bad_rt} addresses in block {i:02x}xxxx do not parse back, first {:06x}", first.unwrap()), json!({"address": first})));
        }
    });
    col.merge(c);
    col.merge(corpus_mutations(ctx, ctx.q(50, 500)));
    *extra = json!({"icao_text": "all 2^24 addresses, exhaustive", "grid": "DF17 x CA 0-7 and DF18 x CF 0-7 x type code 0-31 x subtype 0-7 (types 19, 28, 31)"});
}

// ---- C06
fn c06(ctx: &Ctx, col: &mut Collector, extra: &mut serde_json::Value) {
    let k = ctx.q(3u64, 96);
    // 13-bit carriers
    let c = par_units(ctx, "c06-ac13", 4 * 64, |i, r, col, slot| {
        let df = [0u8, 4, 16, 20][i as usize / 64];
        let block = i as u32 % 64;
        for lo in 0..128u32 {
            let code = block * 128 + lo;
            for _ in 0..k {
                let cs = ClassSpec { df, hdr3: None, tc: None, st: None, bds: None };
                let mut m = cs.make(r);
                setbits(&mut m, 20, 32, u64::from(code));
                slot.begin(|| hex(&m));
                obs::judge(&ctx.g, col, &m);
                slot.end();
                col.count("ac13_codes_x_carriers", 1);
            }
        }
    });
    col.merge(c);
    // 12-bit carriers: 13 type codes x {DF17, DF18 (cf varies)}
    let tcs: Vec<u8> = (9..=18).chain(20..=22).collect();
    let c = par_units(ctx, "c06-ac12", (tcs.len() * 2 * 16) as u64, |i, r, col, slot| {
        let tc = tcs[(i as usize / 32) % tcs.len()];
        let df = if (i / 16) % 2 == 0 { 17u8 } else { 18 };
        let block = i as u32 % 16;
        for lo in 0..256u32 {
            let code = block * 256 + lo;
            for _ in 0..k {
                let cs = ClassSpec { df, hdr3: Some(if df == 17 { *r.pick(&[0u8, 4, 5, 6, 7]) } else { r.below(8) as u8 }), tc: Some(tc), st: None, bds: None };
                let mut m = cs.make(r);
                setbits(&mut m, 32 + 9, 32 + 20, u64::from(code));
                slot.begin(|| hex(&m));
                obs::judge(&ctx.g, col, &m);
                slot.end();
                col.count("ac12_codes_x_carriers", 1);
            }
        }
    });
    col.merge(c);
    *extra = json!({"ac13": "8192 codes x DF0/4/16/20", "ac12": "4096 codes x 13 type codes x DF17/DF18", "surroundings_per_code": k});
}

// ---- C07
fn c07(ctx: &Ctx, col: &mut Collector, extra: &mut serde_json::Value) {
    // velocity pairs
    let stride = ctx.q(61u64, 1);
    let c = par_units(ctx, "c07-pairs", 4 * 1024, |i, r, col, slot| {
        let dirs = i / 1024; // ew_dir, ns_dir
        let ew = i % 1024;
        let mut ns = if stride == 1 { 0 } else { r.below(stride) };
        while ns < 1024 {
            for st in [1u8, 2] {
                for vr in [0u16, 1, 1 + r.below(510) as u16] {
                    if stride != 1 && vr == 0 && r.chance(0.5) {
                        continue;
                    }
                    let me = encode::me_velocity(st, r.below(32) as u8, (dirs >> 1) as u8, ew as u16, (dirs & 1) as u8, ns as u16, r.below(2) as u8, r.below(2) as u8, vr, r.below(2) as u8, r.below(128) as u8);
                    let df = if r.chance(0.8) { 17 } else { 18 };
                    let m = encode::long_frame(df, if df == 17 { *r.pick(&[0u8, 4, 5, 6, 7]) } else { r.below(8) as u8 }, (r.next() & 0xFF_FFFF) as u32, &me);
                    slot.begin(|| hex(&m));
                    obs::judge(&ctx.g, col, &m);
                    slot.end();
                    col.count("velocity_pairs", 1);
                }
            }
            ns += stride;
        }
    });
    col.merge(c);
    // edges x edges always
    let e = [0u16, 1, 2, 3, 511, 512, 1021, 1022, 1023];
    let c = par_units(ctx, "c07-edges", 4, |dirs, r, col, _| {
        for &ew in &e {
            for &ns in &e {
                for st in 0..8u8 {
                    for vr in [0u16, 1, 2, 510, 511] {
                        for vs in 0..2u8 {
                            let me = encode::me_velocity(st, r.below(32) as u8, (dirs >> 1) as u8, ew, (dirs & 1) as u8, ns, r.below(2) as u8, vs, vr, r.below(2) as u8, r.below(128) as u8);
                            let m = encode::long_frame(17, 5, (r.next() & 0xFF_FFFF) as u32, &me);
                            obs::judge(&ctx.g, col, &m);
                        }
                    }
                }
            }
        }
    });
    col.merge(c);
    // all 2^11 rate codes x velocities
    let c = par_units(ctx, "c07-rate", 2048, |i, r, col, _| {
        for _ in 0..ctx.q(8, 64) {
            let me = encode::me_velocity(*r.pick(&[1u8, 2]), r.below(32) as u8, r.below(2) as u8, r.range(1, 1023) as u16, r.below(2) as u8, r.range(1, 1023) as u16, (i >> 10) as u8 & 1, (i >> 9) as u8 & 1, (i & 511) as u16, r.below(2) as u8, r.below(128) as u8);
            let m = encode::long_frame(17, 5, (r.next() & 0xFF_FFFF) as u32, &me);
            obs::judge(&ctx.g, col, &m);
            col.count("rate_codes", 1);
        }
    });
    col.merge(c);
    // airspeed subtypes: heading status/heading/type/airspeed 2^22 (thorough) or sampled
    let stride = ctx.q(97u64, 1);
    let c = par_units(ctx, "c07-air", 4 * 1024, |i, r, col, _| {
        let hs = (i / 2048) as u8;
        let at = ((i / 1024) & 1) as u8;
        let hdg = (i % 1024) as u16;
        let mut a = if stride == 1 { 0 } else { r.below(stride) };
        while a < 1024 {
            let me = encode::me_velocity(*r.pick(&[3u8, 4]), r.below(32) as u8, hs, hdg, at, a as u16, r.below(2) as u8, r.below(2) as u8, r.below(512) as u16, r.below(2) as u8, r.below(128) as u8);
            let m = encode::long_frame(if r.chance(0.8) { 17 } else { 18 }, r.below(8) as u8, (r.next() & 0xFF_FFFF) as u32, &me);
            obs::judge(&ctx.g, col, &m);
            col.count("airspeed_codes", 1);
            a += stride;
        }
    });
    col.merge(c);
    // NACv field (5 bits) and difference (1+7 bits) codes, all subtypes
    let c = par_units(ctx, "c07-misc", 32 * 256, |i, r, col, _| {
        let nac = (i / 256) as u8;
        let d = (i % 256) as u8;
        for st in 0..8u8 {
            let me = encode::me_velocity(st, nac, r.below(2) as u8, r.below(1024) as u16, r.below(2) as u8, r.below(1024) as u16, r.below(2) as u8, r.below(2) as u8, r.below(512) as u16, d >> 7, d & 127);
            let m = encode::long_frame(17, 5, (r.next() & 0xFF_FFFF) as u32, &me);
            obs::judge(&ctx.g, col, &m);
        }
    });
    col.merge(c);
    // reserved bits 47-48 random + walking bits on type 19
    col.merge(walking_bits(ctx, "c07-walk", &es_classes_tc(&[19]), ctx.q(2, 24)));
    *extra = json!({"velocity_pairs": if ctx.thorough() { "all 2^22 (dir,dir,ew,ns) x subtypes 1,2 x 3 rate codes" } else { "stride 61 over ns for every (dirs, ew) + edges" }});
}

// ---- C08
fn ident_frame(r: &mut Rng, chars: &[u8; 8], carrier: u64) -> Vec<u8> {
    match carrier % 4 {
        0 | 1 => {
            let tc = r.range(1, 4) as u8;
            let ca = r.below(8) as u8;
            let me = encode::me_identification(tc, ca, chars);
            let df = if carrier % 4 == 0 { 17 } else { 18 };
            encode::long_frame(df, if df == 17 { *r.pick(&[0u8, 4, 5, 6, 7]) } else { r.below(8) as u8 }, (r.next() & 0xFF_FFFF) as u32, &me).to_vec()
        }
        c => {
            let mut mb = [0u8; 7];
            mb[0] = 0x20;
            for (i, ch) in chars.iter().enumerate() {
                setbits(&mut mb, 9 + 6 * i, 14 + 6 * i, u64::from(*ch));
            }
            encode::long_ap(if c == 2 { 20 } else { 21 }, (r.next() & 0x7FF_FFFF) as u32, &mb, (r.next() & 0xFF_FFFF) as u32).to_vec()
        }
    }
}

fn c08(ctx: &Ctx, col: &mut Collector, extra: &mut serde_json::Value) {
    // every code at every position: others letters / random
    let k = ctx.q(4u64, 64);
    let c = par_units(ctx, "c08-single", 8 * 64 * 4, |i, r, col, _| {
        let carrier = i % 4;
        let pos = ((i / 4) % 8) as usize;
        let code = (i / 32) as u8;
        for rep in 0..k {
            let mut chars = [0u8; 8];
            for (j, c) in chars.iter_mut().enumerate() {
                *c = if rep == 0 { 1 + ((j as u8 * 3) % 26) } else { r.below(64) as u8 };
            }
            chars[pos] = code;
            let m = ident_frame(r, &chars, carrier);
            obs::judge(&ctx.g, col, &m);
            col.count("single_position_codes", 1);
        }
    });
    col.merge(c);
    // all pairs of positions x 64^2 codes (thorough: all 28 pairs; quick: the 7 adjacent pairs + (0,7))
    let pairs: Vec<(usize, usize)> = if ctx.thorough() { (0..8).flat_map(|a| ((a + 1)..8).map(move |b| (a, b))).collect() } else { vec![(0, 1), (1, 2), (2, 3), (3, 4), (4, 5), (5, 6), (6, 7), (0, 7)] };
    let c = par_units(ctx, "c08-pairs", (pairs.len() * 64) as u64, |i, r, col, _| {
        let (a, b) = pairs[i as usize / 64];
        let ca = (i % 64) as u8;
        for cb in 0..64u8 {
            let mut chars = [0u8; 8];
            for c in chars.iter_mut() {
                *c = r.below(64) as u8;
            }
            chars[a] = ca;
            chars[b] = cb;
            let carrier = r.below(4);
            let m = ident_frame(r, &chars, carrier);
            obs::judge(&ctx.g, col, &m);
            col.count("pair_position_codes", 1);
        }
    });
    col.merge(c);
    // random strings, with a bias to spaces / valid characters
    let n = ctx.q(60_000u64, 4_000_000);
    let c = par_units(ctx, "c08-rand", 64, |_, r, col, _| {
        for _ in 0..n / 64 {
            let mut chars = [0u8; 8];
            let mode = r.below(3);
            for c in chars.iter_mut() {
                *c = match mode {
                    0 => r.below(64) as u8,
                    1 => *r.pick(&[32u8, 32, 1, 26, 48, 57, 0, 63, 27, 47, 58]),
                    _ => encode::char_code(*r.pick(&['A', 'Z', 'K', 'L', 'M', '0', '9', ' ', ' '])),
                };
            }
            let carrier = r.below(4);
            let m = ident_frame(r, &chars, carrier);
            obs::judge(&ctx.g, col, &m);
        }
    });
    col.merge(c);
    // one definition for both kinds of carrier: the same eight characters give the same text in a
    // type 1-4 squitter (DF17, DF18) and in a BDS 2,0 reply (DF20, DF21) - blanks inside, in front
    // and behind, and unassigned codes included
    let n = ctx.q(3_000u64, 300_000);
    let c = par_units(ctx, "c08-agree", 32, |_, r, col, _| {
        let quoted = |dbg: &str, key: &str| -> Option<String> {
            let i = dbg.find(key)? + key.len();
            let j = dbg[i..].find('"')? + i;
            Some(dbg[i..j].to_string())
        };
        for _ in 0..n / 32 {
            let mut chars = [0u8; 8];
            for c in chars.iter_mut() {
                *c = match r.below(4) {
                    0 => 32,
                    1 => r.below(64) as u8,
                    _ => encode::char_code(*r.pick(&['A', 'Z', 'K', 'M', '1', '0', '9'])),
                };
            }
            let mut texts: Vec<(u64, String)> = vec![];
            for carrier in 0..4u64 {
                let m = ident_frame(r, &chars, carrier);
                let (_e, o) = obs::judge(&ctx.g, col, &m);
                if let Res::Ok(ok) = &o.res {
                    if let Some(t) = if carrier < 2 { quoted(&ok.debug, "cn: \"") } else { quoted(&ok.debug, "AircraftIdentification(\"") } {
                        texts.push((carrier, t));
                    }
                }
            }
            col.count("identifications_compared_across_carriers", texts.len() as u64);
            if let Some((_, first)) = texts.first() {
                if let Some((c2, other)) = texts.iter().find(|(_, t)| t != first) {
                    col.add(fnd("C08", "carriers_disagree", "squitter/bds20", format!("the characters {:?} read {first:?} in a DF17 identification squitter and {other:?} in carrier {c2} (0/1 = DF17/18 squitter, 2/3 = DF20/21 BDS 2,0)", vref::altitude::ident_raw(&chars)), json!({"chars": chars.to_vec()})));
                }
            }
        }
    });
    col.merge(c);
    // runs of one character (leading / trailing / all eight): all spaces, all '#', ...
    let c = par_units(ctx, "c08-runs", 64, |i, r, col, _| {
        for carrier in 0..4u64 {
            for lead in 0..=8usize {
                for rev in [false, true] {
                    let mut chars = [0u8; 8];
                    for (k, c) in chars.iter_mut().enumerate() {
                        let inside = if rev { k >= 8 - lead } else { k < lead };
                        *c = if inside { i as u8 } else { 1 + r.below(26) as u8 };
                    }
                    let m = ident_frame(r, &chars, carrier);
                    obs::judge(&ctx.g, col, &m);
                }
            }
        }
    });
    col.merge(c);
    // type / category grid
    let c = par_units(ctx, "c08-cat", 2 * 8 * 4 * 8, |i, r, col, _| {
        let df = if i & 1 == 0 { 17u8 } else { 18 };
        let h = ((i >> 1) & 7) as u8;
        let tc = 1 + ((i >> 4) & 3) as u8;
        let ca = ((i >> 6) & 7) as u8;
        for _ in 0..ctx.q(2, 32) {
            let mut chars = [0u8; 8];
            for c in chars.iter_mut() {
                *c = r.below(64) as u8;
            }
            let me = encode::me_identification(tc, ca, &chars);
            let m = encode::long_frame(df, h, (r.next() & 0xFF_FFFF) as u32, &me);
            obs::judge(&ctx.g, col, &m);
        }
    });
    col.merge(c);
    col.merge(walking_bits(ctx, "c08-walk", &es_classes_tc(&[1, 2, 3, 4]), ctx.q(1, 8)));
    *extra = json!({"pairs_of_positions": pairs.len(), "carriers": ["DF17 types 1-4", "DF18 types 1-4 (all CF)", "DF20 BDS 2,0", "DF21 BDS 2,0"]});
}

// ---- C09
fn c09(ctx: &Ctx, col: &mut Collector, extra: &mut serde_json::Value) {
    let k = ctx.q(4u64, 128);
    let c = par_units(ctx, "c09-codes", 64, |i, r, col, slot| {
        for lo in 0..128u32 {
            let code = (i as u32) * 128 + lo;
            for _ in 0..k {
                // three carriers with the same 13 bits
                let m5 = {
                    let mut m = ClassSpec { df: 5, hdr3: None, tc: None, st: None, bds: None }.make(r);
                    setbits(&mut m, 20, 32, u64::from(code));
                    m
                };
                let m21 = {
                    let mut m = ClassSpec { df: 21, hdr3: None, tc: None, st: None, bds: Some(*r.pick(&[0u8, 0x10, 0x20, 0x33])) }.make(r);
                    setbits(&mut m, 20, 32, u64::from(code));
                    m
                };
                let m28 = {
                    let df = if r.chance(0.7) { 17 } else { 18 };
                    let me = encode::me_status(r.below(8) as u8, r.below(8) as u8, code);
                    let mut m = encode::long_frame(df, if df == 17 { *r.pick(&[0u8, 4, 5, 6, 7]) } else { r.below(8) as u8 }, (r.next() & 0xFF_FFFF) as u32, &me).to_vec();
                    // bits after the squawk are not interpreted: randomise them
                    let mut tail = [0u8; 4];
                    r.fill(&mut tail);
                    for (j, t) in tail.iter().enumerate() {
                        m[7 + j] = *t;
                    }
                    m
                };
                let mut vals: Vec<Option<String>> = vec![];
                for (m, path, strip) in [(&m5, "df.id.0", false), (&m21, "df.id", false), (&m28, "", true)] {
                    slot.begin(|| hex(m));
                    let (_e, o) = obs::judge(&ctx.g, col, m);
                    slot.end();
                    let v = if let Res::Ok(ok) = &o.res {
                        ok.tree.as_ref().and_then(|t| {
                            if strip {
                                t.text_at("df.0.me.0.squawk").or_else(|| t.text_at("df.cf.me.0.squawk")).map(|s| s.to_string())
                            } else {
                                t.text_at(path).map(|s| s.to_string())
                            }
                        })
                    } else {
                        None
                    };
                    // "presented as four hex-coded digits": the report of each carrier prints them
                    // (DF5 as four digits, DF21 and type 28 without leading zeros)
                    if let Res::Ok(ok) = &o.res {
                        if let Some(text) = &ok.display {
                            let abcd = vref::altitude::squawk(code);
                            let want = if strip { format!("  Squawk:        {abcd:x}\n") } else if path == "df.id.0" { format!("  Identity:      {abcd:04x}\n") } else { format!("    Squawk:        {abcd:x}\n") };
                            col.count("identity_lines_read", 1);
                            if (!strip || text.contains("Emergency/priority status")) && text.matches(want.as_str()).count() != 1 {
                                col.add(fnd("C09", "identity_not_in_report", if strip { "tc28" } else if path == "df.id.0" { "df5" } else { "df21" }, format!("identity code {code:013b} = {abcd:04x}: the report has no (single) line {want:?}: {text:?}"), json!({"code": code, "frame": hex(m)})));
                            }
                        }
                    }
                    vals.push(v);
                }
                col.count("codes_x_carriers", 3);
                if let (Some(a), Some(b), Some(c)) = (&vals[0], &vals[1], &vals[2]) {
                    if a != b || b != c {
                        col.add(fnd("C09", "carriers_disagree", "df5/df21/tc28", format!("identity code {code:013b}: DF5 {a}, DF21 {b}, type 28 {c}"), json!({"code": code, "frames": [hex(&m5), hex(&m21), hex(&m28)]})));
                    }
                }
            }
        }
    });
    col.merge(c);
    // all 64 subtype/emergency combinations
    let c = par_units(ctx, "c09-status", 64, |i, r, col, _| {
        for _ in 0..ctx.q(16, 256) {
            let me = encode::me_status((i / 8) as u8, (i % 8) as u8, r.below(8192) as u32);
            let df = if r.chance(0.6) { 17 } else { 18 };
            let m = encode::long_frame(df, r.below(8) as u8, (r.next() & 0xFF_FFFF) as u32, &me);
            obs::judge(&ctx.g, col, &m);
        }
    });
    col.merge(c);
    // the named codes
    for abcd in [0x7500u32, 0x7600, 0x7700, 0x1200, 0x0000, 0x7777, 0x2000, 0x0021] {
        let code = vref::altitude::squawk_encode(abcd);
        let me = encode::me_status(1, 1, code);
        let m = encode::long_frame(17, 5, 0x4840D6, &me);
        obs::judge(&ctx.g, col, &m);
        let m = encode::short_ap(5, (code & 0x1FFF) | (0b000_00000_000000 << 13), 0x4840D6);
        obs::judge(&ctx.g, col, &m);
    }
    col.merge(walking_bits(ctx, "c09-walk", &classes_where(|c| c.df == 5 || c.df == 21 || ((c.df == 17 || c.df == 18) && c.tc == Some(28))), ctx.q(1, 8)));
    *extra = json!({"codes": "all 8192 x DF5, DF21, type 28", "surroundings_per_code": k});
}

// ---- C10
fn c10(ctx: &Ctx, col: &mut Collector, extra: &mut serde_json::Value) {
    let tcs: Vec<u8> = (5..=18).chain(20..=22).chain([29u8, 31]).collect();
    let mut classes = es_classes_tc(&tcs);
    classes.extend(classes_where(|c| (c.df == 20 || c.df == 21) && c.bds.is_some()));
    col.merge(class_sweep(ctx, "c10-sweep", &classes, &["C10", "C06"], ctx.q(7, 12), ctx.q(12, 64), ctx.q(1, 3)));
    col.merge(walking_bits(ctx, "c10-walk", &classes, ctx.q(1, 10)));
    // dispatch: all 32 type codes x subtypes under both formats / all 256 BDS ids
    let all = classes_where(|c| c.df == 17 || c.df == 18);
    col.merge(class_random(ctx, "c10-dispatch", &all, ctx.q(16, 300)));
    let c = par_units(ctx, "c10-bds", 2 * 256, |i, r, col, _| {
        let df = if i < 256 { 20u8 } else { 21 };
        for _ in 0..ctx.q(8, 100) {
            let m = ClassSpec { df, hdr3: None, tc: None, st: None, bds: Some((i % 256) as u8) }.make(r);
            obs::judge(&ctx.g, col, &m);
        }
    });
    col.merge(c);
    // CPR fields: all 2^17 values (thorough) / stride (quick) in airborne + surface position
    let stride = ctx.q(37u64, 1);
    let c = par_units(ctx, "c10-cpr", 4 * 128, |i, r, col, _| {
        let which = i / 128; // 0 air lat, 1 air lon, 2 surf lat, 3 surf lon
        let block = i % 128;
        let mut v = block * 1024 + if stride == 1 { 0 } else { r.below(stride) };
        while v < (block + 1) * 1024 {
            let tc = if which < 2 { *r.pick(&[9u8, 11, 18, 20, 22]) } else { r.range(5, 8) as u8 };
            let df = if r.chance(0.6) { 17 } else { 18 };
            let mut m = ClassSpec { df, hdr3: Some(if df == 17 { *r.pick(&[0u8, 4, 5, 6, 7]) } else { r.below(8) as u8 }), tc: Some(tc), st: None, bds: None }.make(r);
            if which % 2 == 0 {
                setbits(&mut m, 32 + 23, 32 + 39, v);
            } else {
                setbits(&mut m, 32 + 40, 32 + 56, v);
            }
            obs::judge(&ctx.g, col, &m);
            col.count("cpr_field_values", 1);
            v += stride;
        }
    });
    col.merge(c);
    // scaled target-state fields: all values
    let c = par_units(ctx, "c10-tss", 2048 + 512 + 512, |i, r, col, _| {
        for _ in 0..ctx.q(2, 16) {
            let df = if r.chance(0.6) { 17 } else { 18 };
            let mut m = ClassSpec { df, hdr3: Some(if df == 17 { 5 } else { r.below(8) as u8 }), tc: Some(29), st: None, bds: None }.make(r);
            if i < 2048 {
                setbits(&mut m, 32 + 10, 32 + 20, i);
            } else if i < 2560 {
                setbits(&mut m, 32 + 21, 32 + 29, i - 2048);
            } else {
                setbits(&mut m, 32 + 31, 32 + 39, i - 2560);
            }
            obs::judge(&ctx.g, col, &m);
        }
    });
    col.merge(c);
    // BDS 1,0 bit array: all 2^16
    let stride = ctx.q(5u64, 1);
    let c = par_units(ctx, "c10-bitarray", 64, |i, r, col, _| {
        let mut v = i * 1024 + if stride == 1 { 0 } else { r.below(stride) };
        while v < (i + 1) * 1024 {
            let df = if r.bool() { 20 } else { 21 };
            let mut m = ClassSpec { df, hdr3: None, tc: None, st: None, bds: Some(0x10) }.make(r);
            setbits(&mut m, 32 + 41, 32 + 56, v);
            obs::judge(&ctx.g, col, &m);
            v += stride;
        }
    });
    col.merge(c);
    *extra = json!({"layouts": ["surface position", "airborne position (baro/GNSS)", "target state and status", "operational status airborne/surface", "BDS 1,0"], "carriers": ["DF17 CA 0-7", "DF18 CF 0-7", "DF20", "DF21"]});
}

// ---- C11
fn c11(ctx: &Ctx, col: &mut Collector, extra: &mut serde_json::Value) {
    let classes = gen::all_classes();
    col.merge(class_sweep(ctx, "c11-sweep", &classes, &[], ctx.q(5, 9), ctx.q(6, 32), 1));
    col.merge(class_random(ctx, "c11-rand", &classes, ctx.q(40, 2000)));
    // target-state flags in all 2^6 combinations x heading valid
    let c = par_units(ctx, "c11-tss", 128, |i, r, col, _| {
        for _ in 0..ctx.q(8, 64) {
            let df = if r.chance(0.6) { 17 } else { 18 };
            let mut m = ClassSpec { df, hdr3: Some(r.below(8) as u8), tc: Some(29), st: None, bds: None }.make(r);
            setbits(&mut m, 32 + 30, 32 + 30, i & 1);
            setbits(&mut m, 32 + 53, 32 + 53, (i >> 1) & 1);
            setbits(&mut m, 32 + 48, 32 + 48, (i >> 2) & 1);
            setbits(&mut m, 32 + 49, 32 + 49, (i >> 3) & 1);
            setbits(&mut m, 32 + 50, 32 + 50, (i >> 4) & 1);
            setbits(&mut m, 32 + 52, 32 + 52, (i >> 5) & 1);
            setbits(&mut m, 32 + 54, 32 + 54, (i >> 6) & 1);
            obs::judge(&ctx.g, col, &m);
        }
    });
    col.merge(c);
    // velocity renderings at the ceil/floor edges: headings around 0/90/180/270, rate present/absent, negative delta
    let c = par_units(ctx, "c11-vel", 4 * 64, |i, r, col, _| {
        let dirs = i / 64;
        for _ in 0..ctx.q(16, 256) {
            let (ew, ns) = match r.below(5) {
                0 => (1u16, r.range(1, 1023) as u16),
                1 => (r.range(1, 1023) as u16, 1u16),
                2 => (2, r.range(2, 1023) as u16),
                3 => (r.range(2, 1023) as u16, 2),
                _ => (r.below(1024) as u16, r.below(1024) as u16),
            };
            let me = encode::me_velocity(r.range(1, 2) as u8, r.below(32) as u8, (dirs >> 1) as u8, ew, (dirs & 1) as u8, ns, r.below(2) as u8, r.below(2) as u8, *r.pick(&[0u16, 1, 2, 300, 511]), r.below(2) as u8, *r.pick(&[0u8, 1, 2, 64, 127]));
            let df = if r.chance(0.7) { 17 } else { 18 };
            let m = encode::long_frame(df, r.below(8) as u8, (r.next() & 0xFF_FFFF) as u32, &me);
            obs::judge(&ctx.g, col, &m);
        }
    });
    col.merge(c);
    // altitude 0 vs > 0 in the surveillance formats; all FS/CA/CF words are part of the class list
    let c = par_units(ctx, "c11-alt", 4, |i, r, col, _| {
        let df = [0u8, 4, 16, 20][i as usize];
        for _ in 0..ctx.q(400, 5000) {
            let mut m = ClassSpec { df, hdr3: None, tc: None, st: None, bds: if df == 20 { Some(*r.pick(&[0u8, 0x10, 0x20, 0x44])) } else { None } }.make(r);
            if r.chance(0.3) {
                setbits(&mut m, 20, 32, *r.pick(&[0u64, 0x1FFF, 0x0040, 0x0010]));
            }
            obs::judge(&ctx.g, col, &m);
        }
    });
    col.merge(c);
    // renderer branches hang on narrow values (altitude exactly 0, rate code 1 = 0 ft/min, ...):
    // every altitude code and every vertical-rate code is rendered at least once
    let c = par_units(ctx, "c11-altcodes", 64, |i, r, col, _| {
        for lo in 0..128u32 {
            let code = (i as u32) * 128 + lo; // 13 bit
            for df in [0u8, 4, 16, 20] {
                let mut m = ClassSpec { df, hdr3: None, tc: None, st: None, bds: if df == 20 { Some(0x20) } else { None } }.make(r);
                setbits(&mut m, 20, 32, u64::from(code));
                obs::judge(&ctx.g, col, &m);
            }
            if code < 4096 {
                for (df, tc) in [(17u8, 11u8), (18, 20), (17, 22), (18, 9)] {
                    let mut m = ClassSpec { df, hdr3: Some(r.below(8) as u8), tc: Some(tc), st: None, bds: None }.make(r);
                    setbits(&mut m, 32 + 9, 32 + 20, u64::from(code));
                    obs::judge(&ctx.g, col, &m);
                }
            }
        }
    });
    col.merge(c);
    let c = par_units(ctx, "c11-rates", 2048, |i, r, col, _| {
        for st in 1..=4u8 {
            let me = encode::me_velocity(st, r.below(32) as u8, r.below(2) as u8, r.range(0, 1023) as u16, r.below(2) as u8, r.range(0, 1023) as u16, (i >> 10) as u8 & 1, (i >> 9) as u8 & 1, (i & 511) as u16, r.below(2) as u8, *r.pick(&[0u8, 1, 2, 127]));
            let df = if r.chance(0.7) { 17 } else { 18 };
            let m = encode::long_frame(df, r.below(8) as u8, (r.next() & 0xFF_FFFF) as u32, &me);
            obs::judge(&ctx.g, col, &m);
        }
    });
    col.merge(c);
    // pinned examples: the corpus frames render through the same template check
    col.merge(corpus_mutations(ctx, ctx.q(20, 200)));
    // pinned strings of README / tests reproduced exactly by the real renderer
    let pinned = pinned_strings(&ctx.repo);
    let mut n_ok = 0;
    for (hexs, want) in &pinned {
        if let Some(bytes) = vref::bits::unhex(hexs) {
            let o = obs::observe(&bytes);
            if let Res::Ok(ok) = &o.res {
                if ok.display.as_deref() == Some(want.as_str()) {
                    n_ok += 1;
                } else {
                    col.add(fnd("C11", "pinned_example", hexs, format!("rendered {:?}, pinned {:?}", ok.display, want), json!({"frame_hex": hexs})));
                }
            }
        }
    }
    col.count("pinned_examples_checked", pinned.len() as u64);
    col.count("pinned_examples_reproduced", n_ok);
    *extra = json!({"pinned_examples": pinned.len()});
}

/// (hex, expected rendering) pairs of the repository's tests: `hex!("..")` followed by an `r#"..."#` literal.
pub fn pinned_strings(repo: &str) -> Vec<(String, String)> {
    let mut out = vec![];
    for f in ["libadsb_deku/tests/test.rs", "libadsb_deku/src/lib.rs", "libadsb_deku/README.md"] {
        let Ok(txt) = std::fs::read_to_string(format!("{repo}/{f}")) else { continue };
        let mut rest = txt.as_str();
        while let Some(i) = rest.find("hex!(\"") {
            let s = &rest[i + 6..];
            let Some(j) = s.find('"') else { break };
            let h = s[..j].to_string();
            let after = &s[j..];
            // the next raw string literal before the next hex! belongs to this frame
            let next_hex = after.find("hex!(\"").unwrap_or(after.len());
            if let Some(k) = after[..next_hex].find("r#\"") {
                // skip examples that are commented out
                let line_start = after[..k].rfind('\n').map_or(0, |x| x + 1);
                if after[line_start..k].trim_start().starts_with("//") {
                    rest = after;
                    continue;
                }
                let body = &after[k + 3..];
                if let Some(e) = body.find("\"#") {
                    // doc-comment lines in lib.rs do not carry a prefix inside the raw string
                    out.push((h, body[..e].to_string()));
                }
            }
            rest = after;
        }
    }
    out
}
