//! A tracing subscriber that accepts every event and formats its fields into a sink: the
//! argument expressions of the library's `info!` / `warn!` / `debug!` lines are evaluated (and
//! their Display / Debug code runs) the way they are when an operator switches logging on
//! (RUST_LOG), instead of being skipped because nobody listens.

use std::fmt::Write;
use tracing::field::{Field, Visit};
use tracing::span::{Attributes, Id, Record};
use tracing::{Event, Metadata, Subscriber};

pub struct Sink;

struct V(String);
impl Visit for V {
    fn record_debug(&mut self, field: &Field, value: &dyn std::fmt::Debug) {
        let _ = write!(self.0, "{}={:?} ", field.name(), value);
    }
}

thread_local! {
    pub static EVENTS: std::cell::Cell<u64> = const { std::cell::Cell::new(0) };
}

impl Subscriber for Sink {
    fn enabled(&self, _: &Metadata<'_>) -> bool {
        true
    }
    fn new_span(&self, _: &Attributes<'_>) -> Id {
        Id::from_u64(1)
    }
    fn record(&self, _: &Id, _: &Record<'_>) {}
    fn record_follows_from(&self, _: &Id, _: &Id) {}
    fn event(&self, event: &Event<'_>) {
        let mut v = V(String::new());
        event.record(&mut v);
        EVENTS.with(|c| c.set(c.get() + 1));
        std::hint::black_box(&v.0);
    }
    fn enter(&self, _: &Id) {}
    fn exit(&self, _: &Id) {}
}

/// Run `f` with logging switched on for this thread.
pub fn with_logging<T>(f: impl FnOnce() -> T) -> T {
    tracing::subscriber::with_default(Sink, f)
}

pub fn take_events() -> u64 {
    EVENTS.with(|c| c.replace(0))
}
