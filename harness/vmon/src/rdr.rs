//! C19: decoding through a hostile `Read + Seek` (short reads, transient
//! `Interrupted` errors) must equal decoding from a slice.

use crate::collect::{Collector, Finding};
use crate::gen::{self, ClassSpec};
use crate::mon;
use crate::run::{par_units, Ctx};
use adsb_deku::Frame;
use serde_json::json;
use std::io::{self, Read, Seek, SeekFrom};
use vref::bits::hex;
use vref::rng::Rng;

#[derive(Debug, Clone, Copy, PartialEq)]
pub enum Step {
    /// return at most n bytes
    Chunk(usize),
    /// fail this call with ErrorKind::Interrupted
    Interrupt,
}

#[derive(Debug, Clone, PartialEq)]
pub enum Call {
    Read { want: usize, got: Result<usize, ()> },
    Seek(i64),
}

pub struct HostileReader<'a> {
    data: &'a [u8],
    pos: usize,
    /// consulted per read call, in order; when exhausted `default` applies
    schedule: Vec<Step>,
    default_chunk: usize,
    next: usize,
    pub trace: Vec<Call>,
}

impl<'a> HostileReader<'a> {
    /// Reader positioned at `start` inside `data` (the n-th frame of a stream).
    pub fn new_at(data: &'a [u8], start: usize, schedule: Vec<Step>, default_chunk: usize) -> Self {
        let mut r = Self::new(data, schedule, default_chunk);
        r.pos = start;
        r
    }

    pub fn new(data: &'a [u8], schedule: Vec<Step>, default_chunk: usize) -> Self {
        Self { data, pos: 0, schedule, default_chunk, next: 0, trace: Vec::new() }
    }
}

impl Read for HostileReader<'_> {
    fn read(&mut self, buf: &mut [u8]) -> io::Result<usize> {
        let step = self.schedule.get(self.next).copied().unwrap_or(Step::Chunk(self.default_chunk));
        self.next += 1;
        match step {
            Step::Interrupt => {
                self.trace.push(Call::Read { want: buf.len(), got: Err(()) });
                Err(io::Error::new(io::ErrorKind::Interrupted, "injected"))
            }
            Step::Chunk(n) => {
                let avail = self.data.len().saturating_sub(self.pos);
                let k = buf.len().min(n.max(1)).min(avail);
                buf[..k].copy_from_slice(&self.data[self.pos..self.pos + k]);
                self.pos += k;
                self.trace.push(Call::Read { want: buf.len(), got: Ok(k) });
                Ok(k)
            }
        }
    }
}

impl Seek for HostileReader<'_> {
    fn seek(&mut self, pos: SeekFrom) -> io::Result<u64> {
        let new = match pos {
            SeekFrom::Start(p) => p as i64,
            SeekFrom::Current(d) => self.pos as i64 + d,
            SeekFrom::End(d) => self.data.len() as i64 + d,
        };
        if new < 0 {
            return Err(io::Error::new(io::ErrorKind::InvalidInput, "seek before start"));
        }
        self.trace.push(Call::Seek(new - self.pos as i64));
        self.pos = new as usize;
        Ok(new as u64)
    }
}

#[derive(Debug, Clone, PartialEq)]
enum Outcome {
    Ok { debug: String, crc: u32 },
    Err,
    Panic(String),
}

fn outcome_bytes(b: &[u8]) -> Outcome {
    match mon::guarded(|| Frame::from_bytes(b)) {
        Ok(Ok(f)) => Outcome::Ok { debug: format!("{:?}", f.df), crc: f.crc },
        Ok(Err(_)) => Outcome::Err,
        Err((loc, _)) => Outcome::Panic(loc),
    }
}

fn outcome_reader(b: &[u8], schedule: Vec<Step>, default_chunk: usize) -> (Outcome, Vec<Call>) {
    outcome_reader_at(b, 0, schedule, default_chunk)
}

/// `data[start..]` is the frame: the reader is positioned at `start` (e.g. the n-th frame of a stream).
fn outcome_reader_at(data: &[u8], start: usize, schedule: Vec<Step>, default_chunk: usize) -> (Outcome, Vec<Call>) {
    let b = data;
    let mut rd = HostileReader::new(b, schedule, default_chunk);
    rd.pos = start;
    let r = mon::guarded(|| Frame::from_reader(&mut rd));
    let o = match r {
        Ok(Ok(f)) => Outcome::Ok { debug: format!("{:?}", f.df), crc: f.crc },
        Ok(Err(_)) => Outcome::Err,
        Err((loc, _)) => Outcome::Panic(loc),
    };
    (o, rd.trace)
}

fn trace_class(t: &[Call]) -> String {
    // the shape of the call sequence: R<want> / S<offset>
    t.iter()
        .map(|c| match c {
            Call::Read { want, .. } => format!("R{want}"),
            Call::Seek(d) => format!("S{d}"),
        })
        .collect::<Vec<_>>()
        .join(",")
}

fn sched_text(s: &[Step]) -> String {
    s.iter().map(|x| match x { Step::Chunk(n) => format!("c{n}"), Step::Interrupt => "I".to_string() }).collect::<Vec<_>>().join(" ")
}

fn parse_sched(t: &str) -> Vec<Step> {
    t.split_whitespace()
        .filter_map(|w| if w == "I" { Some(Step::Interrupt) } else { w.strip_prefix('c').and_then(|n| n.parse::<usize>().ok()).map(Step::Chunk) })
        .collect()
}

fn replay(ctx: &Ctx, path: &str) -> i32 {
    let mut col = Collector::new();
    let v: serde_json::Value = std::fs::read_to_string(path).ok().and_then(|t| serde_json::from_str(&t).ok()).unwrap_or(json!({}));
    let Some(bytes) = v["input"]["frame_hex"].as_str().and_then(vref::bits::unhex) else {
        println!("INCONCLUSIVE property=C19 the replay file holds no frame");
        return 2;
    };
    let sched = parse_sched(v["input"]["schedule"].as_str().unwrap_or(""));
    let dc = match v["input"]["default_chunk"].as_u64() { Some(0) | None => usize::MAX, Some(n) => n as usize };
    let plen = v["input"]["prefix_len"].as_u64().unwrap_or(0) as usize;
    let base = outcome_bytes(&bytes);
    let mut stream = vec![0x5Au8; plen];
    stream.extend_from_slice(&bytes);
    let (o, t) = outcome_reader_at(&stream, plen, sched.clone(), dc);
    println!("replay frame={} schedule=[{}] from_bytes={base:?} from_reader={o:?} calls={}", hex(&bytes), sched_text(&sched), t.len());
    if o != base {
        col.add(Finding { prop: "C19".into(), sig: "C19|reader_differs_from_slice|replay".into(), detail: format!("from_reader {o:?} vs from_bytes {base:?}; trace {:?}", &t[..t.len().min(40)]), input: v["input"].clone() });
    }
    col.sample(v["input"].clone());
    let info = ctx.info("fault_enumeration", "replay of one recorded schedule", &[], 1);
    crate::collect::finish(&info, &col, 1, 2, false, json!({"replay_of": path}))
}

pub fn run(ctx: &Ctx) -> i32 {
    if let Some(p) = ctx.flag("--replay") {
        return replay(ctx, &p);
    }
    let classes = gen::all_classes();
    let reps = ctx.q(2u64, 24);
    let rand_sched = ctx.q(24u64, 160);
    let shared: Vec<Vec<u8>> = {
        let mut r = Rng::derive(ctx.seed, "c19-shared", 0);
        (0..64).map(|i| classes[(i * 13) % classes.len()].make(&mut r)).collect()
    };
    let mut col = par_units(ctx, "c19", classes.len() as u64, |i, r, col, slot| {
        let cs: ClassSpec = classes[i as usize];
        for rep in 0..reps {
            let mut bytes = cs.make(r);
            // sometimes longer than the frame, sometimes truncated
            match r.below(8) {
                0 => {
                    let mut t = vec![0u8; r.range(1, 9) as usize];
                    r.fill(&mut t);
                    bytes.extend(t);
                }
                1 => {
                    let k = r.below(bytes.len() as u64) as usize;
                    bytes.truncate(k);
                }
                _ => {}
            }
            slot.begin(|| format!("from_reader schedules on {}", hex(&bytes)));
            let base = outcome_bytes(&bytes);
            // "the same bytes": what lies behind the frame in the reader is not part of the frame
            // (and, by C02, never influences the result) — a reader holding more data must give
            // what the slice holding exactly the frame gives
            if let Some(nb) = vref::bits::frame_bits(vref::bits::getbits(&bytes, 1, 5) as u8) {
                if bytes.len() > nb / 8 {
                    let exact = outcome_bytes(&bytes[..nb / 8]);
                    col.count("schedules_run", 1);
                    col.count("schedules_trailing_data", 1);
                    let (o, _) = outcome_reader(&bytes, vec![], 3);
                    if o != exact {
                        col.add(Finding {
                            prop: "C19".into(),
                            sig: "C19|reader_differs_from_slice|data_behind_frame".into(),
                            detail: format!("from_reader on a reader holding {} more bytes behind the frame gave {o:?}; from_bytes of exactly the frame gives {exact:?}", bytes.len() - nb / 8),
                            input: json!({"frame_hex": hex(&bytes), "schedule": "", "default_chunk": 3}),
                        });
                    }
                }
            }
            col.count("frames_judged", 1);
            col.seen(&bytes);
            if let Outcome::Panic(loc) = &base {
                col.add(Finding { prop: "C01".into(), sig: format!("C01|panic_from_bytes|{loc}"), detail: "panic".into(), input: json!({"frame_hex": hex(&bytes)}) });
                slot.end();
                continue;
            }
            // baseline trace with full reads
            let (o0, t0) = outcome_reader(&bytes, vec![], usize::MAX);
            let tclass = trace_class(&t0);
            col.class(&format!("trace:{}", crate::collect::fnv(tclass.as_bytes()) % 1_000_000));
            col.max("max_reader_calls", t0.len() as u64);
            let n_reads = t0.iter().filter(|c| matches!(c, Call::Read { .. })).count();
            if i % 61 == 0 && rep == 0 {
                col.sample(json!({"frame_hex": hex(&bytes), "from_bytes": format!("{base:?}"), "baseline_call_trace": tclass, "read_calls": n_reads}));
            }
            let mut schedules: Vec<(Vec<Step>, usize, &'static str)> = Vec::new();
            schedules.push((vec![], usize::MAX, "full"));
            for c in 1..=8usize {
                schedules.push((vec![], c, "fixed_chunk"));
            }
            // one and three Interrupted before every read call index
            for k in 0..=n_reads {
                let mut s1 = vec![Step::Chunk(usize::MAX); k];
                s1.push(Step::Interrupt);
                schedules.push((s1.clone(), usize::MAX, "interrupt_x1"));
                let mut s3 = vec![Step::Chunk(usize::MAX); k];
                s3.extend([Step::Interrupt, Step::Interrupt, Step::Interrupt]);
                schedules.push((s3, usize::MAX, "interrupt_x3"));
                if rep == 0 {
                    // the same with one-byte reads around it
                    let mut s = vec![Step::Chunk(1); k];
                    s.push(Step::Interrupt);
                    schedules.push((s, 1, "interrupt_x1_bytewise"));
                }
            }
            for _ in 0..rand_sched {
                let len = r.range(1, 60) as usize;
                let p_int = [0.0, 0.1, 0.3, 0.6][r.below(4) as usize];
                let s: Vec<Step> = (0..len).map(|_| if r.chance(p_int) { Step::Interrupt } else { Step::Chunk(r.range(1, 9) as usize) }).collect();
                schedules.push((s, *r.pick(&[1usize, 2, 3, usize::MAX]), "random"));
            }
            if o0 != base {
                col.add(Finding {
                    prop: "C19".into(),
                    sig: format!("C19|reader_differs_from_slice|full|{}", crate::obs_class(&ctx.g, &bytes)),
                    detail: format!("from_reader (full reads) {o0:?} vs from_bytes {base:?}"),
                    input: json!({"frame_hex": hex(&bytes), "schedule": "", "default_chunk": "max"}),
                });
            }
            for (s, dc, kind) in schedules {
                let (o, t) = outcome_reader(&bytes, s.clone(), dc);
                col.count("schedules_run", 1);
                col.count(&format!("schedules_{kind}"), 1);
                col.max("max_reader_calls", t.len() as u64);
                if t.len() > 4096 {
                    col.add(Finding { prop: "C19".into(), sig: format!("C19|reader_call_explosion|{kind}"), detail: format!("{} reader calls for one decode", t.len()), input: json!({"frame_hex": hex(&bytes), "schedule": sched_text(&s)}) });
                }
                if o != base {
                    let what = match (&o, &base) {
                        (Outcome::Panic(l), _) => format!("panic:{l}"),
                        (Outcome::Err, Outcome::Ok { .. }) => "err_instead_of_ok".to_string(),
                        (Outcome::Ok { .. }, Outcome::Err) => "ok_instead_of_err".to_string(),
                        (Outcome::Ok { crc, debug }, Outcome::Ok { crc: c2, debug: d2 }) => {
                            if debug != d2 { "frame_differs".to_string() } else if crc != c2 { "checksum_differs".to_string() } else { "?".into() }
                        }
                        _ => "differs".to_string(),
                    };
                    col.add(Finding {
                        prop: "C19".into(),
                        sig: format!("C19|{what}|{kind}"),
                        detail: format!("from_reader under schedule [{}] (then chunks of {dc}) gave {o:?}; from_bytes gives {base:?}; call trace {:?}", sched_text(&s), &t[..t.len().min(40)]),
                        input: json!({"frame_hex": hex(&bytes), "schedule": sched_text(&s), "default_chunk": if dc == usize::MAX { 0 } else { dc }}),
                    });
                }
            }
            // a reader that is not at offset 0 when decoding starts (second frame of a stream, a file offset)
            for _ in 0..3 {
                let plen = r.range(1, 40) as usize;
                let mut stream = vec![0u8; plen];
                r.fill(&mut stream);
                stream.extend_from_slice(&bytes);
                let sched: Vec<Step> = match r.below(3) {
                    0 => vec![],
                    1 => (0..20).map(|_| Step::Chunk(r.range(1, 4) as usize)).collect(),
                    _ => (0..30).map(|_| if r.chance(0.3) { Step::Interrupt } else { Step::Chunk(r.range(1, 9) as usize) }).collect(),
                };
                let dc = *r.pick(&[1usize, usize::MAX]);
                let (o, t) = outcome_reader_at(&stream, plen, sched.clone(), dc);
                col.count("schedules_run", 1);
                col.count("schedules_start_offset", 1);
                if o != base {
                    col.add(Finding {
                        prop: "C19".into(),
                        sig: "C19|reader_differs_from_slice|start_offset".to_string(),
                        detail: format!("from_reader on a reader positioned at offset {plen} gave {o:?}; from_bytes of the same bytes gives {base:?}; call trace {:?}", &t[..t.len().min(30)]),
                        input: json!({"frame_hex": hex(&bytes), "prefix_len": plen, "schedule": sched_text(&sched)}),
                    });
                }
            }
            // a stream of frames in one reader: after this frame the next one is decoded from where
            // the first decode left the reader - it must be the frame that follows in the bytes
            {
                let other = &shared[r.below(shared.len() as u64) as usize];
                let want_second = outcome_bytes(other);
                if matches!(base, Outcome::Ok { .. }) {
                    let need = if bytes[0] & 0x80 != 0 { 14 } else { 7 };
                    let mut stream = bytes[..need.min(bytes.len())].to_vec();
                    stream.extend_from_slice(other);
                    let sched: Vec<Step> = match r.below(3) {
                        0 => vec![],
                        1 => (0..40).map(|_| Step::Chunk(r.range(1, 5) as usize)).collect(),
                        _ => (0..40).map(|_| if r.chance(0.25) { Step::Interrupt } else { Step::Chunk(r.range(1, 16) as usize) }).collect(),
                    };
                    let dc = *r.pick(&[1usize, 5, usize::MAX]);
                    let mut rd = HostileReader::new(&stream, sched.clone(), dc);
                    let first = mon::guarded(|| Frame::from_reader(&mut rd));
                    let pos_after = rd.pos;
                    let second = mon::guarded(|| Frame::from_reader(&mut rd));
                    let o2 = match second {
                        Ok(Ok(f)) => Outcome::Ok { debug: format!("{:?}", f.df), crc: f.crc },
                        Ok(Err(_)) => Outcome::Err,
                        Err((loc, _)) => Outcome::Panic(loc),
                    };
                    col.count("streams_of_two_frames", 1);
                    if matches!(first, Ok(Ok(_))) && o2 != want_second {
                        col.add(Finding {
                            prop: "C19".into(),
                            sig: format!("C19|second_frame_of_stream_differs|df{}", bytes[0] >> 3),
                            detail: format!("two frames back to back in one reader: after the first ({need} bytes) the reader stood at offset {pos_after}; the second decode gave {o2:?}, from_bytes of the second frame gives {want_second:?}"),
                            input: json!({"frame_hex": hex(&bytes[..need.min(bytes.len())]), "second_frame_hex": hex(other), "schedule": sched_text(&sched)}),
                        });
                    }
                }
            }
            // purity: repeat and interleave
            let again = outcome_bytes(&bytes);
            let other = &shared[r.below(shared.len() as u64) as usize];
            let _ = outcome_bytes(other);
            let _ = outcome_reader(other, vec![Step::Interrupt, Step::Chunk(1)], 2);
            // ... and inputs that fail half-way: frames of every long format cut to 1-13 bytes (the
            // fields may parse while the checksum step fails), the empty input, a cut copy of `other`:
            // whatever such a decode leaves behind must not reach the next one
            for _ in 0..3 {
                let mut p = vec![0u8; r.range(1, 13) as usize];
                r.fill(&mut p);
                p[0] = ((*r.pick(&[19u8, 20, 20, 21, 16, 17, 18, 24, 31])) << 3) | (r.below(8) as u8);
                let _ = outcome_bytes(&p);
                let _ = outcome_reader(&p, vec![Step::Chunk(r.range(1, 5) as usize), Step::Interrupt], *r.pick(&[1usize, 3, usize::MAX]));
                col.count("purity_poison_decodes", 2);
            }
            let _ = outcome_bytes(&[]);
            let _ = outcome_bytes(&other[..r.below(other.len() as u64) as usize]);
            let third = outcome_bytes(&bytes);
            let (fourth, _) = outcome_reader(&bytes, vec![Step::Chunk(2), Step::Interrupt], usize::MAX);
            if fourth != base {
                col.add(Finding { prop: "C19".into(), sig: "C19|decode_not_pure|reader_after_failed_decodes".into(), detail: format!("decode through a reader after failed decodes of other inputs differs: {base:?} / {fourth:?}"), input: json!({"frame_hex": hex(&bytes)}) });
            }
            col.count("purity_repeats", 3);
            if again != base || third != base {
                col.add(Finding { prop: "C19".into(), sig: "C19|decode_not_pure|repeat".into(), detail: format!("repeated decode differs: {base:?} / {again:?} / {third:?}"), input: json!({"frame_hex": hex(&bytes)}) });
            }
            slot.end();
        }
        // cross-thread agreement on shared frames: record the hash of each outcome
        for (k, f) in shared.iter().enumerate() {
            let o = outcome_bytes(f);
            let h = crate::collect::fnv(format!("{o:?}").as_bytes());
            col.max(&format!("shared_{k}_max"), h);
            let e = col.maxima.entry(format!("shared_{k}_min")).or_insert(u64::MAX);
            if h < *e {
                *e = h;
            }
        }
    });
    // (max == min) for every shared frame, otherwise threads disagreed
    let mut disagree = 0;
    for k in 0..shared.len() {
        let mx = col.maxima.remove(&format!("shared_{k}_max"));
        let mn = col.maxima.remove(&format!("shared_{k}_min"));
        if mx != mn {
            disagree += 1;
            col.add(Finding { prop: "C19".into(), sig: "C19|decode_not_pure|across_threads".into(), detail: format!("frame {} decoded differently in different threads", hex(&shared[k])), input: json!({"frame_hex": hex(&shared[k])}) });
        }
    }
    col.count("shared_frames_cross_thread", shared.len() as u64);
    col.count("shared_frames_disagreeing", disagree);
    let evals = col.counters.get("schedules_run").copied().unwrap_or(0);
    let distinct_traces = col.classes.keys().filter(|k| k.starts_with("trace:")).count() as u64;
    let info = ctx.info(
        "fault_enumeration",
        "for a representative frame of every (DF, header, type, subtype/BDS) class (sometimes truncated or with trailing bytes): baseline read/seek call trace, then one-byte reads, every fixed chunk size 1..8, an Interrupted (x1, x3) before every read call index, random chunk/interrupt schedules; each result compared with from_bytes; distinct = distinct byte strings decoded; classes 'trace:*' are distinct read/seek call-sequence shapes",
        &["only ErrorKind::Interrupted is injected; other I/O errors are outside the property", "a reader that returns Ok(0) does so only at true end of data"],
        1000,
    );
    let distinct = col.distinct.len() as u64;
    crate::collect::finish(&info, &col, evals, distinct, false, json!({"distinct_call_trace_shapes": distinct_traces, "fault_points": "every read call index of the baseline trace"}))
}
