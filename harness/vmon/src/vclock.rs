//! Virtual time without a hook in the repository: this binary defines
//! `clock_gettime`, so `SystemTime::now()` / `elapsed()` inside the tracker
//! resolve to it. The virtual clock is per thread (histories run in parallel,
//! each on its own logical time line); when a thread has no virtual time set the
//! call is passed through to the kernel.

use std::cell::Cell;

thread_local! {
    static VT: Cell<Option<(i64, i64)>> = const { Cell::new(None) };
}

pub fn set_ns(ns: i128) {
    let s = ns.div_euclid(1_000_000_000) as i64;
    let n = ns.rem_euclid(1_000_000_000) as i64;
    VT.with(|v| v.set(Some((s, n))));
}

pub fn clear() {
    VT.with(|v| v.set(None));
}

/// # Safety
/// Called by libc users with a valid timespec pointer.
#[no_mangle]
pub unsafe extern "C" fn clock_gettime(clk: libc::clockid_t, ts: *mut libc::timespec) -> libc::c_int {
    if clk == libc::CLOCK_REALTIME {
        if let Ok(Some((s, n))) = VT.try_with(|v| v.get()) {
            (*ts).tv_sec = s;
            (*ts).tv_nsec = n;
            return 0;
        }
    }
    libc::syscall(libc::SYS_clock_gettime, clk, ts) as libc::c_int
}
