//! Execution monitors: panic hook, counting allocator, CPU-time hang watchdog.

use std::alloc::{GlobalAlloc, Layout, System};
use std::cell::{Cell, RefCell};
use std::panic;
use std::sync::atomic::{AtomicBool, AtomicU64, Ordering};
use std::sync::{Arc, Mutex};

// ---------------------------------------------------------------- allocator
pub struct CountingAlloc;

thread_local! {
    static A_CALLS: Cell<u64> = const { Cell::new(0) };
    static A_BYTES: Cell<u64> = const { Cell::new(0) };
    static A_LIVE: Cell<i64> = const { Cell::new(0) };
    static A_PEAK: Cell<i64> = const { Cell::new(0) };
    static A_ON: Cell<bool> = const { Cell::new(false) };
}

unsafe impl GlobalAlloc for CountingAlloc {
    unsafe fn alloc(&self, l: Layout) -> *mut u8 {
        let _ = A_ON.try_with(|on| {
            if on.get() {
                A_CALLS.with(|c| c.set(c.get() + 1));
                A_BYTES.with(|c| c.set(c.get() + l.size() as u64));
                A_LIVE.with(|c| {
                    c.set(c.get() + l.size() as i64);
                    A_PEAK.with(|p| {
                        if c.get() > p.get() {
                            p.set(c.get())
                        }
                    });
                });
            }
        });
        System.alloc(l)
    }
    unsafe fn dealloc(&self, p: *mut u8, l: Layout) {
        let _ = A_ON.try_with(|on| {
            if on.get() {
                A_LIVE.with(|c| c.set(c.get() - l.size() as i64));
            }
        });
        System.dealloc(p, l)
    }
    unsafe fn realloc(&self, p: *mut u8, l: Layout, new: usize) -> *mut u8 {
        let _ = A_ON.try_with(|on| {
            if on.get() {
                A_CALLS.with(|c| c.set(c.get() + 1));
                if new > l.size() {
                    A_BYTES.with(|c| c.set(c.get() + (new - l.size()) as u64));
                }
                A_LIVE.with(|c| {
                    c.set(c.get() + new as i64 - l.size() as i64);
                    A_PEAK.with(|p| {
                        if c.get() > p.get() {
                            p.set(c.get())
                        }
                    });
                });
            }
        });
        System.realloc(p, l, new)
    }
}

#[derive(Debug, Clone, Copy, Default)]
pub struct AllocStats {
    pub calls: u64,
    pub bytes: u64,
    pub peak: u64,
}

/// Run `f` with allocation counting on for this thread.
pub fn count_allocs<T>(f: impl FnOnce() -> T) -> (T, AllocStats) {
    A_CALLS.with(|c| c.set(0));
    A_BYTES.with(|c| c.set(0));
    A_LIVE.with(|c| c.set(0));
    A_PEAK.with(|c| c.set(0));
    A_ON.with(|c| c.set(true));
    let r = f();
    A_ON.with(|c| c.set(false));
    let st = AllocStats { calls: A_CALLS.with(|c| c.get()), bytes: A_BYTES.with(|c| c.get()), peak: A_PEAK.with(|c| c.get()).max(0) as u64 };
    (r, st)
}

// ---------------------------------------------------------------- panics
thread_local! {
    static LAST_PANIC: RefCell<Option<(String, String)>> = const { RefCell::new(None) };
}

pub fn install_panic_hook() {
    panic::set_hook(Box::new(|info| {
        // make sure the hook itself is not counted as an allocation of the op
        let _ = A_ON.try_with(|on| on.set(false));
        let loc = info.location().map(|l| format!("{}:{}", short_path(l.file()), l.line())).unwrap_or_else(|| "?".into());
        let msg = if let Some(s) = info.payload().downcast_ref::<&str>() {
            (*s).to_string()
        } else if let Some(s) = info.payload().downcast_ref::<String>() {
            s.clone()
        } else {
            "?".into()
        };
        LAST_PANIC.with(|p| *p.borrow_mut() = Some((loc, msg)));
    }));
}

fn short_path(p: &str) -> String {
    // keep the part from the crate directory on: .../libadsb_deku/src/lib.rs -> libadsb_deku/src/lib.rs
    for key in ["libadsb_deku/", "rsadsb_common/", "apps/", "vmon/", "vref/"] {
        if let Some(i) = p.find(key) {
            return p[i..].to_string();
        }
    }
    if let Some(i) = p.find("registry/src/") {
        let rest = &p[i + 13..];
        if let Some(j) = rest.find('/') {
            return rest[j + 1..].to_string();
        }
    }
    p.to_string()
}

/// Run f; Err((location, message)) if it panicked.
pub fn guarded<T>(f: impl FnOnce() -> T) -> Result<T, (String, String)> {
    LAST_PANIC.with(|p| *p.borrow_mut() = None);
    match panic::catch_unwind(panic::AssertUnwindSafe(f)) {
        Ok(v) => Ok(v),
        Err(_) => Err(LAST_PANIC.with(|p| p.borrow_mut().take()).unwrap_or_else(|| ("?".into(), "?".into()))),
    }
}

// ---------------------------------------------------------------- watchdog
pub struct Slot {
    pub tid: AtomicU64,
    pub seq: AtomicU64,
    pub what: Mutex<String>,
}

pub struct Watchdog {
    slots: Arc<Mutex<Vec<Arc<Slot>>>>,
    stop: Arc<AtomicBool>,
    pub limit_cpu_s: f64,
}

fn thread_cpu_s(tid: u64) -> Option<f64> {
    let s = std::fs::read_to_string(format!("/proc/self/task/{tid}/stat")).ok()?;
    let rest = &s[s.rfind(')')? + 2..];
    let f: Vec<&str> = rest.split_whitespace().collect();
    // fields after comm: state(0) ... utime is field 14 overall => index 11 here, stime index 12
    let ut: f64 = f.get(11)?.parse().ok()?;
    let st: f64 = f.get(12)?.parse().ok()?;
    Some((ut + st) / 100.0)
}

impl Watchdog {
    /// `on_hang(what)` is called from the watchdog thread when one operation has
    /// consumed more than `limit_cpu_s` CPU seconds without finishing.
    pub fn start(limit_cpu_s: f64, on_hang: impl Fn(String) + Send + 'static) -> Self {
        let slots: Arc<Mutex<Vec<Arc<Slot>>>> = Arc::new(Mutex::new(Vec::new()));
        let stop = Arc::new(AtomicBool::new(false));
        let s2 = slots.clone();
        let st2 = stop.clone();
        std::thread::spawn(move || {
            let mut last: Vec<(u64, f64)> = Vec::new(); // (seq, cpu at first sight of seq)
            while !st2.load(Ordering::Relaxed) {
                std::thread::sleep(std::time::Duration::from_millis(500));
                let sl = s2.lock().unwrap().clone();
                last.resize(sl.len(), (u64::MAX, 0.0));
                for (i, s) in sl.iter().enumerate() {
                    let tid = s.tid.load(Ordering::Relaxed);
                    if tid == 0 {
                        continue;
                    }
                    let seq = s.seq.load(Ordering::Relaxed);
                    let Some(cpu) = thread_cpu_s(tid) else { continue };
                    if seq % 2 == 0 {
                        // idle (even = between ops)
                        last[i] = (seq, cpu);
                        continue;
                    }
                    if last[i].0 != seq {
                        last[i] = (seq, cpu);
                    } else if cpu - last[i].1 > limit_cpu_s {
                        let w = s.what.lock().map(|g| g.clone()).unwrap_or_default();
                        on_hang(w);
                        last[i] = (seq, cpu);
                    }
                }
            }
        });
        Self { slots, stop, limit_cpu_s }
    }

    pub fn register(&self) -> Arc<Slot> {
        let tid = unsafe { libc::syscall(libc::SYS_gettid) } as u64;
        let s = Arc::new(Slot { tid: AtomicU64::new(tid), seq: AtomicU64::new(0), what: Mutex::new(String::new()) });
        self.slots.lock().unwrap().push(s.clone());
        s
    }
}

impl Drop for Watchdog {
    fn drop(&mut self) {
        self.stop.store(true, Ordering::Relaxed);
    }
}

impl Slot {
    #[inline]
    pub fn begin(&self, what: impl FnOnce() -> String) {
        if let Ok(mut g) = self.what.try_lock() {
            *g = what();
        }
        self.seq.fetch_add(1, Ordering::Relaxed); // odd = in op
    }
    #[inline]
    pub fn end(&self) {
        self.seq.fetch_add(1, Ordering::Relaxed);
    }
}
