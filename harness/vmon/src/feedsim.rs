//! `vmon feedsim`: runs the *library* of the repository under test on a recorded
//! feed exactly the way a client is specified to (every complete `*<hex>;` line
//! once, in order) and prints what the Airplanes / Stats tabs must show. C18
//! compares the radar screen with this, so a library defect is not reported
//! twice (C12-C14 judge the library against the model).

use adsb_deku::Frame;
use rsadsb_common::{Added, Airplanes};
use serde_json::json;

pub fn run(args: &[String]) -> i32 {
    let get = |name: &str| -> Option<String> {
        let mut it = args.iter();
        while let Some(a) = it.next() {
            if a == name {
                return it.next().cloned();
            }
        }
        None
    };
    let lat: f64 = get("--lat").and_then(|s| s.parse().ok()).unwrap_or(0.0);
    let lon: f64 = get("--long").and_then(|s| s.parse().ok()).unwrap_or(0.0);
    let range: f64 = get("--max-range").and_then(|s| s.parse().ok()).unwrap_or(500.0);
    let limit = args.iter().any(|a| a == "--limit-parsing");
    let Some(path) = get("--lines") else {
        eprintln!("feedsim: --lines FILE");
        return 2;
    };
    let Ok(txt) = std::fs::read_to_string(&path) else {
        eprintln!("feedsim: cannot read {path}");
        return 2;
    };
    let mut planes = Airplanes::new();
    let mut total_added = 0u64;
    let mut flag_mismatch = 0u64;
    let mut most = 0usize;
    let (mut lat, mut lon) = (lat, lon);
    for line in txt.lines() {
        // "#R lat lon": the receiver is somewhere else from here on (a gpsd-fed client)
        if let Some(rest) = line.strip_prefix("#R ") {
            let v: Vec<f64> = rest.split_whitespace().filter_map(|x| x.parse().ok()).collect();
            if v.len() == 2 {
                lat = v[0];
                lon = v[1];
            }
            continue;
        }
        let Some(hex) = line.trim_end_matches('\r').strip_prefix('*').and_then(|l| l.strip_suffix(';')) else { continue };
        let Some(bytes) = vref::bits::unhex(hex) else { continue };
        if bytes.is_empty() || bytes.iter().all(|b| *b == 0) {
            continue;
        }
        if limit && (bytes[0] >> 3) != 17 {
            continue;
        }
        if let Ok(frame) = Frame::from_bytes(&bytes) {
            // "newly added" is counted from the tracked set itself, not from the flag `action`
            // returns (a wrong flag is C12's business; here it would hide a wrong total on screen)
            let before = planes.len();
            let flag = planes.action(frame, (lat, lon), range) == Added::Yes;
            if planes.len() > before {
                total_added += 1;
            }
            if flag != (planes.len() > before) {
                flag_mismatch += 1;
            }
            most = most.max(planes.len());
        }
    }
    let mut rows = vec![];
    for k in planes.keys() {
        let st = planes.get(*k).unwrap();
        let d = planes.aircraft_details(*k);
        let (la, lo, alt, dist) = match &d {
            Some(d) => (format!("{:.3}", d.position.latitude), format!("{:.3}", d.position.longitude), d.altitude.to_string(), format!("{:.3}", d.kilo_distance)),
            None => (String::new(), String::new(), String::new(), String::new()),
        };
        rows.push(json!({
            "icao": k.to_string(),
            "callsign": st.callsign.clone().unwrap_or_default(),
            "lat": la, "lon": lo,
            "heading": st.heading.map_or(String::new(), |h| format!("{h:.1}")),
            "alt": alt,
            "fpm": st.vert_speed.map_or(String::new(), |v| v.to_string()),
            "speed": st.speed.map_or(String::new(), |v| format!("{v:.0}")),
            "dist": dist,
            "msgs": st.num_messages.to_string(),
        }));
    }
    println!("{}", json!({"rows": rows, "len": planes.len(), "total_added": total_added, "most": most, "added_flag_mismatches": flag_mismatch}));
    0
}
