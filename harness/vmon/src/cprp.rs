//! C05: `cpr::get_position` against the reference CPR encoder / decoder.

use crate::collect::{Collector, Finding};
use crate::mon;
use crate::run::{par_units, Ctx};
use adsb_deku::{cpr as rcpr, Altitude, CPRFormat};
use serde_json::json;
use vref::cpr::{self, Cpr, Decode};
use vref::rng::Rng;

/// A position report carrying the CPR values `c`. Everything else in it (type code: barometric
/// 9-18 or GNSS height 20-22, surveillance status, antenna flag, altitude, time bit) varies
/// pseudo-randomly with `c` and independently for the two reports of a pair: the pairing must
/// depend on the parity and the CPR values only.
fn alt(c: Cpr) -> Altitude {
    use adsb_deku::SurveillanceStatus as SS;
    let h = crate::collect::fnv(&[c.yz.to_le_bytes(), c.xz.to_le_bytes(), [c.odd as u8, 0, 0, 0]].concat());
    const TCS: [u8; 13] = [9, 10, 11, 12, 13, 14, 15, 16, 17, 18, 20, 21, 22];
    Altitude {
        tc: TCS[(h % 13) as usize],
        ss: [SS::NoCondition, SS::PermanentAlert, SS::TemporaryAlert, SS::SPICondition][((h >> 8) % 4) as usize],
        saf_or_imf: ((h >> 12) & 1) as u8,
        alt: if (h >> 16) % 5 == 0 { None } else { Some((((h >> 20) % 50_000) as u16).into()) },
        t: (h >> 40) & 1 == 1,
        odd_flag: if c.odd { CPRFormat::Odd } else { CPRFormat::Even },
        lat_cpr: c.yz,
        lon_cpr: c.xz,
    }
}

fn region(lat: f64) -> &'static str {
    let a = lat.abs();
    if a > 87.0 {
        "polar"
    } else if a == 87.0 {
        "lat87"
    } else if a < 1e-9 {
        "equator"
    } else {
        "mid"
    }
}

fn londiff(a: f64, b: f64) -> f64 {
    let d = (a - b).abs();
    d.min((d - 360.0).abs())
}

/// Judge one ordered pair. `truth` = true position of the second report, if the pair was encoded from one.
fn judge_pair(col: &mut Collector, first: Cpr, second: Cpr, truth: Option<(f64, f64)>, tag: &str) {
    col.count("pairs_judged", 1);
    col.seen_hash((u64::from(first.yz) << 47) ^ (u64::from(first.xz) << 30) ^ (u64::from(second.yz) << 13) ^ u64::from(second.xz) ^ (u64::from(first.odd) << 63) ^ (u64::from(second.odd) << 62));
    let a = alt(first);
    let mut b = alt(second);
    if tag.starts_with("twin") {
        // the two reports differ in nothing but their parity bit (and, for "twin_cpr", the CPR values)
        b = Altitude { odd_flag: b.odd_flag, lat_cpr: b.lat_cpr, lon_cpr: b.lon_cpr, ..a };
    }
    let got = match mon::guarded(|| rcpr::get_position((&a, &b))) {
        Ok(g) => g,
        Err((loc, msg)) => {
            col.add(Finding { prop: "C01".into(), sig: format!("C01|panic_get_position|{loc}"), detail: msg, input: json!({"first": format!("{first:?}"), "second": format!("{second:?}")}) });
            return;
        }
    };
    let input = json!({"first": {"odd": first.odd, "yz": first.yz, "xz": first.xz}, "second": {"odd": second.odd, "yz": second.yz, "xz": second.xz}, "truth": truth.map(|t| vec![t.0, t.1]), "workload": tag});
    if let Some(p) = &got {
        if !(-90.0..=90.0).contains(&p.latitude) || !(-180.0..180.0).contains(&p.longitude) || p.latitude.is_nan() || p.longitude.is_nan() {
            col.add(Finding { prop: "C05".into(), sig: "C05|returned_position_out_of_range".into(), detail: format!("returned ({}, {})", p.latitude, p.longitude), input: input.clone() });
        }
    }
    let r = cpr::decode_global(first, second);
    match r {
        Decode::SameParity => {
            col.class("ref:same_parity");
            if let Some(p) = got {
                col.add(Finding { prop: "C05".into(), sig: "C05|equal_parity_yields_position".into(), detail: format!("two reports of equal parity gave ({}, {})", p.latitude, p.longitude), input });
            }
        }
        Decode::LatRange { lat_even, lat_odd } => {
            col.class("ref:lat_out_of_range");
            if let Some(p) = got {
                col.add(Finding { prop: "C05".into(), sig: "C05|position_from_latitude_outside_range".into(), detail: format!("recovered latitudes even {lat_even} / odd {lat_odd} are outside [-90, 90] but ({}, {}) was returned", p.latitude, p.longitude), input });
            }
        }
        Decode::NlMismatch { lat_even, lat_odd } => {
            col.class("ref:nl_mismatch");
            if let Some(p) = got {
                col.add(Finding {
                    prop: "C05".into(),
                    sig: format!("C05|position_from_unequal_zone_counts|{}", region(lat_even)),
                    detail: format!("NL({lat_even}) = {} != NL({lat_odd}) = {} but ({}, {}) was returned", cpr::nl(lat_even), cpr::nl(lat_odd), p.latitude, p.longitude),
                    input,
                });
            }
        }
        Decode::Pos { ambiguous: true, .. } => {
            col.count("ambiguous_skipped", 1);
        }
        Decode::Pos { lat, lon, .. } => {
            col.class(&format!("ref:pos/{}/nl{}", region(lat), cpr::nl(lat)));
            match got {
                None => col.add(Finding { prop: "C05".into(), sig: format!("C05|no_position_for_decodable_pair|{}", region(lat)), detail: format!("reference decodes ({lat}, {lon})"), input }),
                Some(p) => {
                    if (p.latitude - lat).abs() > 1e-9 || londiff(p.longitude, lon) > 1e-9 {
                        col.add(Finding {
                            prop: "C05".into(),
                            sig: format!("C05|position_differs_from_reference|{}|{}", region(lat), if (p.latitude - lat).abs() > 1e-9 { "lat" } else { "lon" }),
                            detail: format!("returned ({}, {}), reference ({lat}, {lon}) in the zone system of the second report", p.latitude, p.longitude),
                            input: input.clone(),
                        });
                    }
                    // re-encodes to the second report's own CPR values
                    let re = cpr::encode(p.latitude, p.longitude, second.odd);
                    if re.yz != second.yz || re.xz != second.xz {
                        col.add(Finding {
                            prop: "C05".into(),
                            sig: format!("C05|does_not_reencode_to_second_report|{}", region(lat)),
                            detail: format!("({}, {}) encodes to {re:?}, second report is {second:?}", p.latitude, p.longitude),
                            input: input.clone(),
                        });
                    }
                    if let Some((tl, to)) = truth {
                        let i = u32::from(second.odd);
                        let binlat = cpr::dlat(i) / cpr::NB;
                        let ni = cpr::nl(lat).saturating_sub(i).max(1);
                        let binlon = 360.0 / f64::from(ni) / cpr::NB;
                        let ref_ok = (lat - tl).abs() <= binlat * 0.5 * 1.000001 && (londiff(lon, to) <= binlon * 0.5 * 1.000001 || (tl.abs() > 89.9999));
                        if !ref_ok {
                            col.inconclusive(format!("reference decode is not within half a bin of the truth ({tag})"));
                        } else if (p.latitude - tl).abs() > binlat * 0.5 * 1.000001 || (londiff(p.longitude, to) > binlon * 0.5 * 1.000001 && tl.abs() <= 89.9999) {
                            col.add(Finding {
                                prop: "C05".into(),
                                sig: format!("C05|position_off_truth|{}", region(lat)),
                                detail: format!("returned ({}, {}), true position ({tl}, {to}); bins {binlat} x {binlon}", p.latitude, p.longitude),
                                input,
                            });
                        }
                    }
                }
            }
        }
    }
}

/// Truth -> both parities (second report displaced by <= 3 NM) -> both orders.
fn judge_truth(col: &mut Collector, r: &mut Rng, lat: f64, lon: f64, displace: bool, tag: &str) {
    let (lat2, lon2) = if displace {
        let d = r.f64() * 3.0 * 1.852;
        let (a, b) = cpr::destination(lat, lon, r.f64() * 360.0, d);
        (a.clamp(-90.0, 90.0), b)
    } else {
        (lat, lon)
    };
    for second_odd in [false, true] {
        let first = cpr::encode(lat, lon, !second_odd);
        let second = cpr::encode(lat2, lon2, second_odd);
        judge_pair(col, first, second, Some((lat2, lon2)), tag);
    }
}

pub fn run(ctx: &Ctx) -> i32 {
    let mut col = Collector::new();
    if let Some(path) = ctx.flag("--replay") {
        let v: serde_json::Value = std::fs::read_to_string(&path).ok().and_then(|t| serde_json::from_str(&t).ok()).unwrap_or(json!({}));
        let c = |k: &str| -> Option<Cpr> {
            let o = &v["input"][k];
            Some(Cpr { odd: o["odd"].as_bool()?, yz: o["yz"].as_u64()? as u32, xz: o["xz"].as_u64()? as u32 })
        };
        let (Some(a), Some(b)) = (c("first"), c("second")) else {
            println!("INCONCLUSIVE property=C05 the replay file holds no pair");
            return 2;
        };
        let truth = v["input"]["truth"].as_array().and_then(|t| Some((t.first()?.as_f64()?, t.get(1)?.as_f64()?)));
        judge_pair(&mut col, a, b, truth, "replay");
        println!("replay first={a:?} second={b:?} reference={:?} observed={:?}", cpr::decode_global(a, b), rcpr::get_position((&alt(a), &alt(b))));
        col.sample(v["input"].clone());
        let info = ctx.info("exploration", "replay of one recorded pair", &[], 1);
        return crate::collect::finish(&info, &col, 1, 2, false, json!({"replay_of": path}));
    }
    // (a) zone latitude sweep: every reachable even / odd latitude as the true latitude
    let stride = ctx.q(16u64, 1);
    let c = par_units(ctx, "c05-zones", 2 * 60 * 128, |i, r, col, slot| {
        let odd = i >= 60 * 128;
        let j = (i % (60 * 128)) / 128;
        let block = i % 128;
        if odd && j >= 59 {
            return;
        }
        let dl = cpr::dlat(u32::from(odd));
        slot.begin(|| format!("zone sweep parity {odd} zone {j} block {block}"));
        let mut yz = block * 1024 + if stride == 1 { 0 } else { r.below(stride) };
        while yz < (block + 1) * 1024 {
            let mut lat = dl * (j as f64 + yz as f64 / cpr::NB);
            if lat >= 270.0 {
                lat -= 360.0;
            }
            if (-90.0..=90.0).contains(&lat) {
                col.count("reachable_zone_latitudes", 1);
                let nlv = cpr::nl(lat).max(1);
                let zone_w = 360.0 / f64::from(nlv);
                let lons = [0.0, 179.999_999, -180.0, (r.below(u64::from(nlv)) as f64 + 0.999_99) * zone_w - 180.0, r.f64() * 360.0 - 180.0];
                for lon in lons.iter().take(ctx.q(3, 5)) {
                    judge_truth(col, r, lat, lon.clamp(-180.0, 179.999_999_9), false, "zone_sweep");
                }
            }
            yz += stride;
        }
        slot.end();
    });
    col.merge(c);
    // around every transition latitude: the +-64 reachable latitudes of both parities
    let c = par_units(ctx, "c05-transitions", 58 * 2 * 2, |i, r, col, _| {
        let n = 2 + (i / 4) as u32; // NL value 2..=59
        let odd = (i / 2) % 2 == 1;
        let south = i % 2 == 1;
        let t = cpr::transition_lat(n);
        let dl = cpr::dlat(u32::from(odd));
        let k0 = (t / dl * cpr::NB).floor() as i64;
        let w = ctx.q(64i64, 400);
        for k in (k0 - w)..=(k0 + w) {
            let lat = dl * (k as f64 / cpr::NB) * if south { -1.0 } else { 1.0 };
            if lat.abs() > 90.0 {
                continue;
            }
            for _ in 0..2 {
                let lon = r.f64() * 360.0 - 180.0;
                judge_truth(col, r, lat, lon, false, "transition");
                judge_truth(col, r, lat, lon, true, "transition_displaced");
            }
        }
        col.count("transition_latitudes_x_parity_x_hemisphere", 1);
    });
    col.merge(c);
    // (b) random truths on the sphere with displacement; dense special regions
    let n = ctx.q(400_000u64, 40_000_000);
    let c = par_units(ctx, "c05-sphere", 256, |_, r, col, _| {
        for _ in 0..n / 256 {
            let (lat, lon) = match r.below(10) {
                0 => (90.0 - r.f64() * 3.2, r.f64() * 360.0 - 180.0),
                1 => (-90.0 + r.f64() * 3.2, r.f64() * 360.0 - 180.0),
                2 => ((r.f64() - 0.5) * 0.2, r.f64() * 360.0 - 180.0),
                3 => ((r.f64() * 2.0 - 1.0).asin().to_degrees(), if r.bool() { 180.0 - r.f64() * 0.1 } else { -180.0 + r.f64() * 0.1 }),
                4 => (*r.pick(&[90.0, -90.0, 87.0, -87.0, 0.0, 86.999_999, 87.000_001]), r.f64() * 360.0 - 180.0),
                _ => ((r.f64() * 2.0 - 1.0).asin().to_degrees(), r.f64() * 360.0 - 180.0),
            };
            let lon = if lon >= 180.0 { -180.0 } else { lon };
            judge_truth(col, r, lat, lon, true, "sphere");
        }
    });
    col.merge(c);
    // (c) raw quadruples
    let n = ctx.q(600_000u64, 60_000_000);
    let c = par_units(ctx, "c05-raw", 256, |_, r, col, _| {
        for _ in 0..n / 256 {
            let a = Cpr { odd: r.bool(), yz: r.below(131072) as u32, xz: r.below(131072) as u32 };
            let b = Cpr { odd: if r.chance(0.9) { !a.odd } else { a.odd }, yz: r.below(131072) as u32, xz: r.below(131072) as u32 };
            judge_pair(col, a, b, None, "raw");
        }
    });
    col.merge(c);
    // twins: reports that agree in every field but the parity bit - also in the CPR values
    // (around 0 N 0 E the even and the odd encoding of a place coincide) - in both orders
    let c = par_units(ctx, "c05-twins", 64, |_, r, col, _| {
        for k in 0..ctx.q(1500u64, 60_000) {
            let (yz, xz) = match k % 4 {
                0 => (r.below(131072) as u32, r.below(131072) as u32),
                1 => (r.below(4000) as u32, r.below(4000) as u32),
                2 => (131071 - r.below(4000) as u32, r.below(4000) as u32),
                _ => (r.below(4000) as u32, 131071 - r.below(4000) as u32),
            };
            let odd = r.bool();
            judge_pair(col, Cpr { odd, yz, xz }, Cpr { odd: !odd, yz, xz }, None, "twin_all");
            let t = cpr::encode((r.f64() - 0.5) * 6.0, (r.f64() - 0.5) * 6.0, odd);
            let u = Cpr { odd: !odd, yz: t.yz, xz: t.xz };
            judge_pair(col, t, u, None, "twin_all");
            judge_pair(col, Cpr { odd, yz, xz }, Cpr { odd: !odd, yz: r.below(131072) as u32, xz: r.below(131072) as u32 }, None, "twin_cpr");
        }
    });
    col.merge(c);
    // a coarse grid of latitude codes (multiples of 2^12: the poles - even 0 with odd 98304 / 32768 -
    // the equator and the quarter points lie on it) x a few longitude codes, both orders
    for ka in 0..32u32 {
        for kc in 0..32u32 {
            for &b in &[0u32, 65536, 12345] {
                for &d in &[0u32, 65536, 99999] {
                    for (o1, o2) in [(false, true), (true, false)] {
                        judge_pair(&mut col, Cpr { odd: o1, yz: ka * 4096, xz: b }, Cpr { odd: o2, yz: kc * 4096, xz: d }, None, "raw_grid");
                    }
                }
            }
        }
    }
    let e = [0u32, 1, 65535, 65536, 65537, 131071];
    for &a in &e {
        for &b in &e {
            for &c2 in &e {
                for &d in &e {
                    for (o1, o2) in [(false, true), (true, false), (false, false), (true, true)] {
                        judge_pair(&mut col, Cpr { odd: o1, yz: a, xz: b }, Cpr { odd: o2, yz: c2, xz: d }, None, "raw_edges");
                    }
                }
            }
        }
    }
    // the pinned examples through the same judge
    judge_pair(&mut col, Cpr { odd: true, yz: 74158, xz: 50194 }, Cpr { odd: false, yz: 93000, xz: 51372 }, None, "pinned");
    judge_pair(&mut col, Cpr { odd: false, yz: 108_011, xz: 110_088 }, Cpr { odd: true, yz: 75_050, xz: 36_777 }, None, "pinned");
    col.sample(json!({"pair": "odd (74158, 50194) then even (93000, 51372)", "reference": format!("{:?}", cpr::decode_global(Cpr { odd: true, yz: 74158, xz: 50194 }, Cpr { odd: false, yz: 93000, xz: 51372 }))}));
    col.sample(json!({"truth": [87.0, 10.0], "even": format!("{:?}", cpr::encode(87.0, 10.0, false)), "odd": format!("{:?}", cpr::encode(87.0, 10.0, true))}));
    let evals = col.counters.get("pairs_judged").copied().unwrap_or(0);
    let distinct = col.distinct.len() as u64;
    let info = ctx.info(
        "exploration",
        "ordered CPR pairs judged against the reference decoder: (a) every reachable zone latitude of both parities as true latitude (exhaustive in thorough, stride 16 in quick) x NL-sensitive longitudes x both orders, (b) +-64..400 reachable latitudes around each of the 58 NL transitions x parity x hemisphere, with and without <=3 NM displacement, (c) area-uniform random truths with displacement + dense polar/equator/antimeridian regions, (d) random and edge raw quadruples incl. equal parity, (e) twins: pairs that agree in every field but the parity bit, CPR values included. distinct_nontrivial = distinct ordered pairs (hash of the six values; exact up to 4M, then a lower bound); classes = distinct (reference outcome, region, NL) cells observed",
        &["NL from the closed formula with the explicit clause NL(+-87 deg)=2", "pairs whose latitude is within 1e-7 NL units of a transition are skipped as ambiguous (counted)"],
        100_000,
    );
    let exhaustive = ctx.thorough();
    crate::collect::finish(&info, &col, evals, distinct, exhaustive, json!({"zone_sweep_stride": stride}))
}
