//! Run context and the parallel unit runner.

use crate::collect::{Collector, RunInfo};
use crate::mon::{Slot, Watchdog};
use std::path::PathBuf;
use std::sync::atomic::{AtomicU64, Ordering};
use std::sync::Arc;
use vref::altitude::Gillham;
use vref::rng::Rng;

pub struct Ctx {
    pub prop: String,
    pub tier: String,
    pub seed: u64,
    pub repo: String,
    pub verif: PathBuf,
    pub threads: usize,
    pub g: Gillham,
    pub wd: Watchdog,
    pub start: std::time::Instant,
    pub args: Vec<String>,
    /// set while the companion workloads (other properties' quick-tier workloads) run
    pub lite: std::sync::atomic::AtomicBool,
    /// mixed into the seeds of the work units: the thorough tier repeats a workload with fresh draws
    pub salt: AtomicU64,
}

impl Ctx {
    pub fn thorough(&self) -> bool {
        self.tier == "thorough" && !self.lite.load(std::sync::atomic::Ordering::Relaxed)
    }
    /// pick by tier
    pub fn q<T>(&self, quick: T, thorough: T) -> T {
        if self.thorough() {
            thorough
        } else {
            quick
        }
    }
    pub fn info(&self, level: &str, rule: &str, assumptions: &[&str], min_eval: u64) -> RunInfo {
        RunInfo {
            prop: self.prop.clone(),
            tier: self.tier.clone(),
            seed: self.seed,
            level: level.to_string(),
            rule: rule.to_string(),
            assumptions: assumptions.iter().map(|s| s.to_string()).collect(),
            evidence_path: self.verif.join("evidence").join(format!("{}.json", self.prop)),
            replay_dir: self.verif.join("replay").join(&self.prop),
            known_path: self.verif.join("known_findings.json"),
            start: self.start,
            min_evaluations: min_eval,
        }
    }
    pub fn flag(&self, name: &str) -> Option<String> {
        let mut it = self.args.iter();
        while let Some(a) = it.next() {
            if a == name {
                return it.next().cloned();
            }
        }
        None
    }
}

/// Run `n` independent work units on all cores. Unit `i` gets an RNG derived from
/// (seed, label, i) so results do not depend on the number of threads.
pub fn par_units(ctx: &Ctx, label: &str, n: u64, f: impl Fn(u64, &mut Rng, &mut Collector, &Slot) + Sync) -> Collector {
    let next = AtomicU64::new(0);
    let mut total = Collector::new();
    let parts: Vec<Collector> = std::thread::scope(|s| {
        let mut hs = Vec::new();
        for _ in 0..ctx.threads.max(1) {
            hs.push(s.spawn(|| {
                let slot: Arc<Slot> = ctx.wd.register();
                let mut col = Collector::new();
                loop {
                    let i = next.fetch_add(1, Ordering::Relaxed);
                    if i >= n {
                        break;
                    }
                    let mut r = Rng::derive(ctx.seed ^ ctx.salt.load(Ordering::Relaxed).wrapping_mul(0x9E37_79B9_7F4A_7C15), label, i);
                    f(i, &mut r, &mut col, &slot);
                }
                slot.tid.store(0, Ordering::Relaxed);
                col
            }));
        }
        hs.into_iter().map(|h| h.join().expect("worker thread died")).collect()
    });
    for p in parts {
        total.merge(p);
    }
    total
}
