//! Workload generators: frame classes, field sweeps, random frames, corpus.

use vref::bits::{frame_bits, getbits, setbits};
use vref::rng::Rng;

#[derive(Debug, Clone, Copy, PartialEq)]
pub struct ClassSpec {
    pub df: u8,
    /// bits 6-8 (CA / CF / FS / VS..)
    pub hdr3: Option<u8>,
    pub tc: Option<u8>,
    pub st: Option<u8>,
    pub bds: Option<u8>,
}

impl ClassSpec {
    pub fn make(&self, r: &mut Rng) -> Vec<u8> {
        let n = frame_bits(self.df).unwrap_or(112) / 8;
        let mut m = vec![0u8; n];
        r.fill(&mut m);
        setbits(&mut m, 1, 5, u64::from(self.df));
        if let Some(h) = self.hdr3 {
            setbits(&mut m, 6, 8, u64::from(h));
        }
        if n == 14 {
            if let Some(tc) = self.tc {
                setbits(&mut m, 33, 37, u64::from(tc));
                if let Some(st) = self.st {
                    setbits(&mut m, 38, 40, u64::from(st));
                }
                if tc == 31 && r.chance(0.9) {
                    make_opstatus_valid(&mut m, r);
                }
            }
            if let Some(b) = self.bds {
                setbits(&mut m, 33, 40, u64::from(b));
            }
        }
        m
    }
}

/// Clear the bits the version 0-2 layout fixes to zero, choose a version 0..=2.
pub fn make_opstatus_valid(m: &mut [u8], r: &mut Rng) {
    let st = getbits(m, 38, 40);
    if st > 1 {
        return;
    }
    setbits(m, 32 + 9, 32 + 10, 0);
    if st == 0 {
        setbits(m, 32 + 13, 32 + 14, 0);
    }
    setbits(m, 32 + 25, 32 + 26, 0);
    setbits(m, 32 + 41, 32 + 43, r.below(3));
}

/// Every (format, header, type, subtype / BDS) class the decoder distinguishes.
pub fn all_classes() -> Vec<ClassSpec> {
    let mut v = Vec::new();
    for df in [0u8, 4, 5, 16, 19] {
        v.push(ClassSpec { df, hdr3: None, tc: None, st: None, bds: None });
    }
    for df in [4u8, 5, 20, 21] {
        for fs in 0..8u8 {
            if df >= 20 {
                for bds in [0x00u8, 0x10, 0x20, 0x30, 0xFF] {
                    v.push(ClassSpec { df, hdr3: Some(fs), tc: None, st: None, bds: Some(bds) });
                }
            } else {
                v.push(ClassSpec { df, hdr3: Some(fs), tc: None, st: None, bds: None });
            }
        }
    }
    for ca in 0..8u8 {
        v.push(ClassSpec { df: 11, hdr3: Some(ca), tc: None, st: None, bds: None });
        for df in 24..32u8 {
            v.push(ClassSpec { df, hdr3: Some(ca), tc: None, st: None, bds: None });
        }
    }
    for df in [17u8, 18] {
        for h in 0..8u8 {
            for tc in 0..32u8 {
                if tc == 19 || tc == 31 || tc == 28 {
                    for st in 0..8u8 {
                        v.push(ClassSpec { df, hdr3: Some(h), tc: Some(tc), st: Some(st), bds: None });
                    }
                } else {
                    v.push(ClassSpec { df, hdr3: Some(h), tc: Some(tc), st: None, bds: None });
                }
            }
        }
    }
    v
}

/// Values to try for a field of `width` bits: everything when narrow enough,
/// otherwise the edges, every single-bit and all-but-one-bit value, and `extra` random values.
pub fn field_values(width: usize, full_limit: usize, extra: usize, r: &mut Rng) -> Vec<u64> {
    if width <= full_limit {
        return (0..(1u64 << width)).collect();
    }
    let max = if width == 64 { u64::MAX } else { (1u64 << width) - 1 };
    let mut v = vec![0, 1, 2, max, max - 1, max / 2, max / 2 + 1];
    for b in 0..width {
        v.push(1u64 << b);
        v.push(max ^ (1u64 << b));
    }
    for _ in 0..extra {
        v.push(r.next() & max);
    }
    v.sort_unstable();
    v.dedup();
    v
}

/// A random byte string of random length 0..=32 whose DF is biased to supported formats.
pub fn random_buffer(r: &mut Rng) -> Vec<u8> {
    let len = match r.below(10) {
        0 => r.below(33) as usize,
        1 => 7,
        2..=3 => 14,
        _ => *r.pick(&[7usize, 14, 14, 14, 15, 16, 32]),
    };
    let mut m = vec![0u8; len];
    r.fill(&mut m);
    if len > 0 && r.chance(0.85) {
        let df = *r.pick(&[0u8, 4, 5, 11, 16, 17, 17, 17, 17, 18, 18, 19, 20, 21, 24, 27, 31]);
        setbits(&mut m, 1, 5, u64::from(df));
    }
    m
}

/// Hex literals of the repository's own tests and README, read at run time.
pub fn corpus(repo: &str) -> Vec<Vec<u8>> {
    let mut out = Vec::new();
    for f in ["libadsb_deku/tests/test.rs", "libadsb_deku/README.md", "README.md", "libadsb_deku/src/lib.rs", "libadsb_deku/src/cpr.rs", "libadsb_deku/benches/decoding.rs"] {
        let Ok(txt) = std::fs::read_to_string(format!("{repo}/{f}")) else { continue };
        let mut rest = txt.as_str();
        while let Some(i) = rest.find("hex!(\"") {
            let s = &rest[i + 6..];
            if let Some(j) = s.find('"') {
                if let Some(b) = vref::bits::unhex(&s[..j]) {
                    out.push(b);
                }
                rest = &s[j..];
            } else {
                break;
            }
        }
        // also the `*....;` dump1090 lines quoted in comments
        for line in txt.lines() {
            if let (Some(a), Some(b)) = (line.find('*'), line.find(';')) {
                if b > a + 1 {
                    if let Some(bytes) = vref::bits::unhex(&line[a + 1..b]) {
                        if bytes.len() == 7 || bytes.len() == 14 {
                            out.push(bytes);
                        }
                    }
                }
            }
        }
    }
    out.sort();
    out.dedup();
    out
}
