#!/usr/bin/env python3
"""Regenerates MANIFEST.json from the table below (kept in one place so it stays valid)."""
import json, sys
CLAIMED = {
 "C01": ("exploration", "§5 C01", "panic/alloc/CPU-time monitors + ASan + Miri over hostile inputs",
   "Every byte string explored (all DF x all lengths grid, field sweeps of every layout, random and corpus-mutated frames) decodes under a panic hook, a counting allocator and a CPU-time watchdog; every Ok frame is rendered, Debug-printed, velocity-computed, paired with a rolling pool of position reports and fed to trackers with hostile receivers. Thorough adds AddressSanitizer, Miri and a debug-profile pass. Held = no panic/abort/sanitizer report/limit overrun on the executions produced.",
   "Says nothing about inputs not generated; limits are fixed constants (512 allocations, 8 KiB, 2 KiB peak, 20 s CPU)."),
 "C02": ("exploration", "§5 C02", "reference acceptance oracle + truncation/trailing-bytes differential",
   "Exhaustive (DF code x buffer length) grid with random payloads, truncation of frames of every class at every length, decode(frame) vs decode(frame+garbage) differential, exhaustive type-31 (subtype x version x reserved bits) grid under DF17 and all CF of DF18; each result compared with the reference acceptance set.",
   "Payload bits are sampled; the acceptance oracle is vref::expect (Annex 10 format table + DESIGN §3 reading of the version 0-2 layout)."),
 "C03": ("exploration", "§5 C03", "bit-serial CRC oracle + error-pattern injection through the real decoder",
   "frame.crc compared with bit-serial polynomial division for every byte value at every byte position of every format and on random frames; constructed valid squitters / DF11 with every II-SI code / AP frames must report 0 / code / address; all error patterns of weight <=3 (all <=5 on one base frame in thorough) and bursts <=24 bits applied to valid squitters and decoded by the real code must not report checksum 0.",
   "2^112 frames are sampled; weight 4-5 patterns sampled in quick."),
 "C04": ("exploration", "§5 C04", "bit-field reference tables over header-field sweeps + exhaustive ICAO text round trip",
   "Every value of every header field with random rest, the full CA/CF x type code x subtype grid for DF17/DF18, DF20/21 x every first MB byte, walking-bit differential; announced address and trailing field compared with bits 9-32 / last 24 bits; ICAO Display/FromStr over all 2^24 addresses (exhaustive).",
   "Field positions are those of Annex 10 as written in vref::expect."),
 "C05": ("exploration", "§5 C05", "CPR encoder/decoder reference over exhaustive zone latitudes and sphere sampling",
   "get_position judged against an independent CPR encoder+decoder: every reachable even/odd zone latitude (thorough exhaustive, quick stride + all transitions) in both orders at NL-sensitive longitudes; random truths on the sphere with <=3 NM displacement; raw quadruples for range/consistency clauses; equal parity.",
   "NL from the closed formula with the explicit +-87 degree clause; truths are sampled."),
 "C06": ("exploration", "§5 C06", "exhaustive altitude-code sweep against a constructive Gillham table",
   "All 8192 13-bit codes in DF0/4/16/20 and all 4096 12-bit codes in each of the 13 type codes under DF17 and DF18, each with K random surroundings, compared with the reference (25N-1000 / constructive Gillham table).",
   "Surrounding bits sampled (K per code)."),
 "C07": ("exploration", "§5 C07", "velocity arithmetic oracle over (near-)exhaustive type-19 fields",
   "All type-19 fields against their bits, calculate() against reference arithmetic: all 2^22 direction/component combinations x subtypes 1,2 in thorough (stride+edges in quick), all 2^11 rate codes, airspeed subtypes, NACv and difference codes.",
   "vrate source wording follows the existing suite (DESIGN §3)."),
 "C08": ("exploration", "§5 C08", "character-set oracle over per-position/pairwise code sweeps in all carriers",
   "Every 6-bit code at each of the 8 positions, position pairs x 64^2 codes, random strings, in DF17/DF18 types 1-4 (all categories) and BDS 2,0 under DF20/DF21.",
   "64^8 strings are sampled; both space-removal readings accepted (DESIGN §3)."),
 "C09": ("exploration", "§5 C09", "exhaustive identity-code sweep + cross-carrier agreement",
   "All 8192 identity codes in DF5, DF21 and type 28 with random surroundings against the interleave definition, plus agreement of the three carriers on the same 13 bits; all 64 subtype/emergency pairs.",
   "Surrounding bits sampled."),
 "C10": ("exploration", "§5 C10", "bit-field reference tables + walking-bit differential",
   "Field sweeps (every value of every interpreted field, rest random) and walking-bit differential for surface/airborne position, target state, operational status, BDS 1,0 under DF17, DF18 (all CF), DF20/21; 2^17 CPR sweeps; dispatch over all type codes/subtypes/BDS ids.",
   "Bit positions as in DO-260B/ICAO 9871 written in vref::expect."),
 "C11": ("exploration", "§5 C11", "template oracle instantiated from the frame's own Debug values",
   "Display of every accepted frame compared with the per-type template instantiated from that frame's Debug tree, over all classes x field sweeps (both outcomes of every renderer branch), plus the pinned README/test examples.",
   "Templates are those pinned by README/tests, written out in vref::render."),
 "C12": ("exploration", "§5 C12", "history + executable sequential model, checked after every step; isolation metamorphic check",
   "Random histories of real decoded frames over few addresses; after every action the real tracker is compared with a sequential model (tracked set, added-iff-new, message counts, non-ES frames inert); isolation: record after interleaved history equals record after the aircraft's own sub-history.",
   "Histories are sampled."),
 "C13": ("exploration", "§5 C13", "history + executable model with CPR/haversine oracles",
   "Model-driven flights (consistent tracks, teleports, range crossings, garbage pairs, duplicates) from several receivers/ranges; published position, clearing and distance compared with the model after every step.",
   "Threshold decisions inside a 1e-9 relative band are not judged."),
 "C14": ("exploration", "§5 C14", "invariant monitor at every quiescent point of tracker histories",
   "Latest-wins attributes, details/all_position/Display agreement, distance-iff-position, track = superseded positions, checked after every step of the C12/C13 histories with identification and velocity frames mixed in.",
   "Histories are sampled."),
 "C15": ("exploration", "§5 C15", "virtual-time histories (clock interposition) against an expiry model",
   "Histories over {frame, advance, prune} with an interposed clock_gettime frozen between advances; removed set, untouched survivors and re-adding compared with the model; boundary dt in {T-1ns, T, T+1ns}.",
   "Time is virtualised by symbol interposition in the harness binary; a real-time cross-check runs without it."),
 "C16": ("fault_enumeration", "§5 C16", "recorded feed/echo history checker for both client binaries under segmentation, delay and disconnect faults",
   "The real 1090 and radar binaries run against a scripted TCP feed with unique lines; segmentations, delays around the 50 ms timeout, malformed lines and disconnect points are enumerated/sampled; an offline checker decides exactly-once/in-order/no-crash/exit/reconnect.",
   "Schedule control is statistical; achieved timeouts are measured."),
 "C17": ("exploration", "§5 C17", "pty-driven operator event sequences with exit-status/termios/VT-mode monitor",
   "Random key/mouse/resize sequences x tracked-set sizes x options on a pseudo-terminal; monitors: process alive until quit, exit status, termios equality, cursor/mouse modes in a VT model; CLI error paths.",
   "Event sequences are sampled."),
 "C18": ("exploration", "§5 C18", "screen reconstruction compared with the library run on the same feed",
   "Airplanes/Stats tabs parsed from the reconstructed screen and compared with the library from /repo run on the same recorded feed; map geometry checks with aircraft N/E/S/W of the receiver; view controls must not change data.",
   "Screen model is a minimal VT parser."),
 "C19": ("fault_enumeration", "§5 C19", "fault enumeration over read/seek call traces (short reads, Interrupted at every call index) + Miri",
   "from_reader over a hostile reader vs from_bytes for a representative of every read/seek pattern: one-byte reads, every chunk size, random schedules, Interrupted before every call index; repeated/interleaved/multi-threaded decodes.",
   "Only ErrorKind::Interrupted is injected (the property's transient error)."),
 "C20": ("exploration", "§5 C20", "differential run of three feature-set builds + serde round trip",
   "The same dumper source built with std, alloc-only and std+serde prints canonical lines for a seeded corpus of frames and tracker histories; lines must be identical; serde_json/ciborium round trips must reproduce the Debug of every frame and tracker state.",
   "The embedded no_std target is not installed; alloc-only feature set on the host only."),
}
def main():
    implemented = sys.argv[1:]
    checks = []
    na = []
    for pid, (cat, ref, tech, text, note) in CLAIMED.items():
        if pid in implemented:
            checks.append({
                "property_id": pid,
                "quick_cmd": f"./check {pid} quick",
                "thorough_cmd": f"./check {pid} thorough",
                "evidence_file": f"/verif/evidence/{pid}.json",
                "replay_cmd_template": f"./check {pid} quick --replay {{path}}",
                "engine": "vmon" if pid not in ("C16","C17","C18","C20") else ("clients" if pid != "C20" else "vdump"),
                "level_claimed": {"category": cat, "text": text, "design_ref": ref},
                "level_note": note,
                "technique": tech,
            })
        else:
            na.append({"property_id": pid, "reason": "check not built yet in this round (planned, see DESIGN.md §5); not claimed until it has been through the kill matrix and silence runs"})
    m = {
        "version": 1,
        "setup_cmd": "./setup.sh",
        "hooks": {
            "guard": "--cfg rsadsb_adsb_deku_verif",
            "enable": "none needed: no instrumentation of /repo is used (observation through the public API, Debug output, a generic reader, clock symbol interposition and the clients' terminal/socket boundary)",
            "baseline_off_cmd": "cd /repo && cargo test --workspace --no-fail-fast --offline",
            "source_commits": [],
            "add_only": True,
        },
        "engines": [
            {"name": "vmon", "path": "/verif/harness", "serves_properties": [p for p in implemented if p not in ("C16","C17","C18","C20")], "kind_free_text": "Rust harness linking the repository's crates; reference-model monitors, execution monitors, sanitizer tiers"},
            {"name": "clients", "path": "/verif/drivers", "serves_properties": [p for p in implemented if p in ("C16","C17","C18")], "kind_free_text": "python3 pty/TCP drivers and offline history checkers for the radar and 1090 binaries"},
            {"name": "vdump", "path": "/verif/harness/vdump", "serves_properties": [p for p in implemented if p == "C20"], "kind_free_text": "same dumper built under three feature sets, diffed"},
        ],
        "checks": checks,
        "not_applicable": na,
        "notes": "All checks are runtime monitors over executions of the real code; see DESIGN.md. known_findings.json lists repaired (fixed) and recorded (known) defects.",
    }
    json.dump(m, open("/verif/MANIFEST.json", "w"), indent=1)
    print("checks:", [c["property_id"] for c in checks], "not claimed:", [n["property_id"] for n in na])
main()
