#!/usr/bin/env bash
# C20: build the dumper against the repository's crates under three feature sets, replay one
# seeded corpus through each, compare the canonical outputs.
set -u
TIER="${1:-quick}"; REPO="${2:-/repo}"; SEED="${3:-1}"
HERE="$(cd "$(dirname "$0")" && pwd)"; H="$HERE/harness"
export CARGO_NET_OFFLINE=true CARGO_TERM_COLOR=never
mkdir -p "$H/run" "$HERE/evidence"
START=$(date +%s.%N)
# the caller (/verif/check) exports VERIF_HW (harness workspace for this repository copy) and VERIF_TGT
HW="${VERIF_HW:-$H}"; TGT="${VERIF_TGT:-$H/target}"; SUF="$(basename "$TGT" | sed 's/^target//')"
( cd "$HW" && flock "$TGT.lock" cargo build --release --offline --target-dir "$TGT" ) > "$H/run/build-C20$SUF.log" 2>&1 || { echo "INCONCLUSIVE property=C20 harness does not build; see $H/run/build-C20$SUF.log"; tail -n 20 "$H/run/build-C20$SUF.log"; exit 2; }
for v in std alloc serde; do
  d="$HW/vdump-$v"; mkdir -p "$d"
  sed "s#@REPO@#$REPO#g" "$H/vdump-$v/Cargo.toml.in" > "$d/Cargo.toml.new"
  cmp -s "$d/Cargo.toml.new" "$d/Cargo.toml" 2>/dev/null && rm "$d/Cargo.toml.new" || mv "$d/Cargo.toml.new" "$d/Cargo.toml"
  [ -f "$d/Cargo.lock" ] || cp "$REPO/Cargo.lock" "$d/Cargo.lock"
  ( cd "$d" && flock "$H/target-vdump-$v$SUF.lock" cargo build --release --offline --target-dir "$H/target-vdump-$v$SUF" ) > "$H/run/build-C20-$v$SUF.log" 2>&1
  if [ $? -ne 0 ]; then
    echo "INCONCLUSIVE property=C20 the $v feature-set build of the repository's crates (or the dumper) does not build; see $H/run/build-C20-$v$SUF.log"
    tail -n 20 "$H/run/build-C20-$v$SUF.log"
    exit 2
  fi
done
W="$H/run/c20-$SEED-$TIER$SUF"; rm -rf "$W"; mkdir -p "$W"
"$TGT/release/vmon" gen-c20 --tier "$TIER" --seed "$SEED" --repo "$REPO" --verif "$HERE" --out "$W/corpus.txt" > "$W/gen.log" 2>&1 || { cat "$W/gen.log"; exit 2; }
for v in std alloc serde; do
  "$H/target-vdump-$v$SUF/release/vdump-$v" "$W/corpus.txt" > "$W/out-$v.txt" 2> "$W/err-$v.txt" &
done
wait
python3 "$HERE/drivers/c20_compare.py" --work "$W" --tier "$TIER" --seed "$SEED" --verif "${VERIF_OUT:-$HERE}" --start "$START"
rc=$?
[ $rc -eq 0 ] && rm -rf "$W"
exit $rc
