#!/usr/bin/env bash
# Applies one seeded change to a scratch worktree of /repo (outside /repo and /verif) and runs
# the given check against it:   try_patch.sh <patch.diff> <ID> [quick|thorough] [seed]
# Prints the check's summary lines; exit code = the check's exit code (1 = the change was caught).
set -u
PATCH="$(readlink -f "$1")"; ID="$2"; TIER="${3:-quick}"; SEED="${4:-1}"
W="${MUTANT_WORKTREE:-/tmp/mw/repo}"
HERE="$(cd "$(dirname "$0")/.." && pwd)"
if [ ! -d "$W/.git" ] && [ ! -f "$W/.git" ]; then
  mkdir -p "$(dirname "$W")"; git -C /repo worktree add --detach "$W" HEAD -q || exit 3
fi
git -C "$W" checkout -q --detach "$(git -C /repo rev-parse HEAD)" 2>/dev/null
git -C "$W" checkout -q -- . ; git -C "$W" clean -fdq -e target
git -C "$W" apply "$PATCH" || { echo "patch does not apply"; exit 3; }
LOG="$(mktemp /tmp/mw/try.XXXXXX)"
VERIF_REPO="$W" VERIF_SEED="$SEED" "$HERE/check" "$ID" "$TIER" > "$LOG" 2>&1
rc=$?
grep -E "^(VIOLATION|KNOWN-FINDING|INCONCLUSIVE|C[0-9]+ (quick|thorough)|  signature)" "$LOG" | head -${LINES_MAX:-12}
rm -f "$LOG"
git -C "$W" checkout -q -- .
exit $rc
