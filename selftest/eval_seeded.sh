#!/usr/bin/env bash
# Confirms a sub-agent's mutant in a scratch worktree and runs the property's check against it:
#   eval_seeded.sh <mutant dir> <ID> [tier]
# (1) patch applies, (2) repository test suite passes with it, (3) Rust demo fails with it and
# passes without it (python/other demos: see meta.json 'demo_confirmed_by'), (4) ./check <ID>.
set -u
D="$(readlink -f "$1")"; ID="$2"; TIER="${3:-quick}"
HERE="$(cd "$(dirname "$0")/.." && pwd)"
W="${MUTANT_WORKTREE:-/tmp/mw/seed}"; export MUTANT_WORKTREE="$W"
[ -e "$W/.git" ] || { mkdir -p "$(dirname "$W")"; git -C /repo worktree add --detach "$W" HEAD -q || exit 3; }
reset() { git -C "$W" checkout -q --detach "$(git -C /repo rev-parse HEAD)" 2>/dev/null; git -C "$W" checkout -q -- .; git -C "$W" clean -fdq -e target; }
reset; mkdir -p "$W/target"
git -C "$W" apply --check "$D/patch.diff" 2>/dev/null || { echo "RESULT patch=DOES-NOT-APPLY"; exit 3; }
demo_dst=""; demo_cmd=""
if [ -f "$D/demo.rs" ]; then
  if grep -q "rsadsb_common" "$D/demo.rs"; then crate=rsadsb_common; pkg=rsadsb_common; else crate=libadsb_deku; pkg=adsb_deku; fi
  demo_dst="$W/$crate/tests/seeded_demo.rs"
  demo_cmd="cargo test -p $pkg --test seeded_demo --offline --target-dir $W/target"
fi
run_demo() { mkdir -p "$(dirname "$demo_dst")"; cp "$D/demo.rs" "$demo_dst"; ( cd "$W" && $demo_cmd ) > "$W/target/demo.log" 2>&1; local rc=$?; rm -f "$demo_dst"; return $rc; }
clean_demo="-"; mut_demo="-"
if [ -n "$demo_dst" ]; then run_demo && clean_demo=pass || clean_demo=FAIL; fi
git -C "$W" apply "$D/patch.diff"
if ( cd "$W" && cargo test --workspace --no-fail-fast --offline --target-dir "$W/target" ) > "$W/target/suite.log" 2>&1; then suite=pass; else suite=FAIL; fi
if [ -n "$demo_dst" ]; then run_demo && mut_demo=pass || mut_demo=FAIL; fi
reset
out="$(LINES_MAX=6 "$HERE/selftest/try_patch.sh" "$D/patch.diff" "$ID" "$TIER" "${SEED:-1}")"; rc=$?
case $rc in 1) c=caught;; 0) c=MISSED;; *) c=inconclusive;; esac
sig="$(printf '%s\n' "$out" | grep signature | sed 's/^ *signature: //' | head -3 | tr '\n' ' ')"
echo "RESULT dir=$D id=$ID suite_with_mutant=$suite demo_clean=$clean_demo demo_with_mutant=$mut_demo check=$c signatures: $sig"
