#!/usr/bin/env bash
# Runs every quick check at several seeds on the unchanged tree and records the summary lines.
#   silence.sh <first seed> <last seed>      (evidence of seed 1 is restored at the end)
set -u
HERE="$(cd "$(dirname "$0")/.." && pwd)"; cd "$HERE"
A="${1:-2}"; B="${2:-5}"
OUT="$HERE/selftest/SILENCE.raw"; : > "$OUT"
ALL="C01 C02 C03 C04 C05 C06 C07 C08 C09 C10 C11 C12 C13 C14 C15 C16 C17 C18 C19 C20"
for seed in $(seq "$A" "$B"); do
  for p in $ALL; do
    VERIF_SEED=$seed ./check $p quick 2>&1 | grep -E "^(VIOLATION|KNOWN-FINDING|INCONCLUSIVE|C[0-9]+ quick|  signature|  detail)" | cut -c1-400 >> "$OUT"
  done
done
for p in $ALL; do VERIF_SEED=1 ./check $p quick > /dev/null 2>&1; done
{
  echo "# Silence runs on the unchanged tree"; echo
  echo "repo HEAD: $(git -C /repo rev-parse --short HEAD); /verif HEAD: $(git -C "$HERE" rev-parse --short HEAD); seeds $A..$B; $(date -u +%FT%TZ)"; echo
  echo "Quick checks run: $(grep -c ' quick seed=' "$OUT"); with violations=0: $(grep -c 'violations=0' "$OUT"); VIOLATION lines: $(grep -c '^VIOLATION' "$OUT"); INCONCLUSIVE lines: $(grep -c '^INCONCLUSIVE' "$OUT")"; echo
  echo '```'; grep -E "quick seed=|^VIOLATION|^INCONCLUSIVE" "$OUT"; echo '```'
} > "$HERE/selftest/SILENCE.md"
tail -3 "$HERE/selftest/SILENCE.md"
