#!/usr/bin/env bash
# Kill matrix: for every patch in selftest/mutants (or the files given) check that it compiles and
# passes the repository's own test suite, then run the quick check of its property against it.
# Result lines:  <patch> tests=<pass|FAIL> check=<caught|MISSED|inconclusive>
set -u
HERE="$(cd "$(dirname "$0")/.." && pwd)"
W="${MUTANT_WORKTREE:-/tmp/mw/repo}"
export MUTANT_WORKTREE="$W"
if [ ! -e "$W/.git" ]; then mkdir -p "$(dirname "$W")"; git -C /repo worktree add --detach "$W" HEAD -q || exit 3; fi
files=("$@"); [ ${#files[@]} -eq 0 ] && files=("$HERE"/selftest/mutants/*.patch)
for f in "${files[@]}"; do
  f="$(readlink -f "$f")"
  name="$(basename "$f" .patch)"; id="${name%%_*}"
  git -C "$W" checkout -q --detach "$(git -C /repo rev-parse HEAD)" 2>/dev/null
  git -C "$W" checkout -q -- .; git -C "$W" clean -fdq -e target
  if ! git -C "$W" apply "$f" 2>/dev/null; then echo "$name tests=- check=PATCH-DOES-NOT-APPLY"; continue; fi
  mkdir -p "$W/target"
  if [ "${SKIP_TESTS:-0}" = 1 ]; then t="skipped"; else
    if ( cd "$W" && cargo test --workspace --no-fail-fast --offline --target-dir "$W/target" ) > "$W/target/test-$name.log" 2>&1; then t="pass"; else t="FAIL"; fi
  fi
  git -C "$W" checkout -q -- .
  out="$(LINES_MAX=4 "$HERE/selftest/try_patch.sh" "$f" "$id" "${TIER:-quick}" "${SEED:-1}")"; rc=$?
  case $rc in 1) c="caught";; 0) c="MISSED";; *) c="inconclusive";; esac
  sig="$(printf '%s\n' "$out" | grep -m1 signature | sed 's/^ *signature: //')"
  echo "$name tests=$t check=$c ${sig}"
done
