#!/usr/bin/env bash
# Like eval_seeded.sh for mutants of the client binaries whose demonstration is `demo.py <binary dir or radar binary>`:
#   eval_seeded_app.sh <mutant dir> <ID> <which binary: radar|1090>
set -u
D="$(readlink -f "$1")"; ID="$2"; BINNAME="${3:-radar}"
HERE="$(cd "$(dirname "$0")/.." && pwd)"
W="${MUTANT_WORKTREE:-/tmp/mw/seedapp}"; export MUTANT_WORKTREE="$W"
[ -e "$W/.git" ] || { mkdir -p "$(dirname "$W")"; git -C /repo worktree add --detach "$W" HEAD -q || exit 3; }
reset() { git -C "$W" checkout -q --detach "$(git -C /repo rev-parse HEAD)" 2>/dev/null; git -C "$W" checkout -q -- .; git -C "$W" clean -fdq -e target; }
build() { ( cd "$W" && cargo build --release --offline -p rsadsb_apps --target-dir "$W/target" ) > "$W/target/build.log" 2>&1; }
demo() { ( cd "$D" && timeout 300 python3 demo.py "$W/target/release/$BINNAME" ) > "$W/target/demo.log" 2>&1; }
reset; mkdir -p "$W/target"
git -C "$W" apply --check "$D/patch.diff" 2>/dev/null || { echo "RESULT patch=DOES-NOT-APPLY"; exit 3; }
build || { echo "RESULT clean build failed"; exit 3; }
demo && clean_demo=pass || clean_demo=FAIL
git -C "$W" apply "$D/patch.diff"
if ( cd "$W" && cargo test --workspace --no-fail-fast --offline --target-dir "$W/target" ) > "$W/target/suite.log" 2>&1; then suite=pass; else suite=FAIL; fi
build || { echo "RESULT mutant build failed"; reset; exit 3; }
demo && mut_demo=pass || mut_demo=FAIL
reset
out="$(LINES_MAX=8 "$HERE/selftest/try_patch.sh" "$D/patch.diff" "$ID" "${TIER:-quick}" "${SEED:-1}")"; rc=$?
case $rc in 1) c=caught;; 0) c=MISSED;; *) c=inconclusive;; esac
sig="$(printf '%s\n' "$out" | grep signature | sed 's/^ *signature: //' | head -3 | tr '\n' ' ')"
echo "RESULT dir=$D id=$ID suite_with_mutant=$suite demo_clean=$clean_demo demo_with_mutant=$mut_demo check=$c signatures: $sig"
