#!/usr/bin/env python3
"""Generates the kill-matrix patches (selftest/mutants/*.patch) by textual replacement in a
scratch worktree of /repo. Each mutant: (name, property, file, old, new)."""
import subprocess, sys, os
W = sys.argv[1] if len(sys.argv) > 1 else "/tmp/mw/gen"
OUT = os.path.join(os.path.dirname(os.path.abspath(__file__)), "mutants")
M = [
 # C01
 ("c01_ac12_guard", "C01", "libadsb_deku/src/lib.rs", "            if n > 1000 {\n                // TODO: maybe replace with Result->Option\n                Ok(u16::try_from(n - 1000).ok())", "            if n > 0 {\n                // TODO: maybe replace with Result->Option\n                Ok(u16::try_from(n - 1000).ok())"),
 ("c01_vrate_checked", "C01", "libadsb_deku/src/adsb.rs", "            let vrate = self\n                .vrate_value\n                .checked_sub(1)\n                .and_then(|v| v.checked_mul(64))\n                .map(|v| (v as i16) * self.vrate_sign.value());", "            let vrate = Some(((self.vrate_value - 1) * 64) as i16 * self.vrate_sign.value());"),
 ("c01_crc_len_guard", "C01", "libadsb_deku/src/crc.rs", "if (n < 3) || (message.len() < n) {", "if n < 3 {"),
 # C02
 ("c02_long_bit", "C02", "libadsb_deku/src/lib.rs", "if id & 0x10 != 0 {", "if id & 0x18 != 0 {"),
 ("c02_drop_om_assert", "C02", "libadsb_deku/src/adsb.rs", "    /// (0, 0) in Version 2, reserved for other values\n    #[deku(bits = \"2\", assert_eq = \"0\")]\n    reserved: u8,", "    /// (0, 0) in Version 2, reserved for other values\n    #[deku(bits = \"2\")]\n    reserved: u8,"),
 # C03
 ("c03_table_entry", "C03", "libadsb_deku/src/crc.rs", "0x00fa_0480,\n];", "0x00fa_0481,\n];"),
 ("c03_mask", "C03", "libadsb_deku/src/crc.rs", "rem &= 0x00ff_ffff;", "rem &= 0x00ff_fffe;"),
 # C04
 ("c04_icao_fmt", "C04", "libadsb_deku/src/lib.rs", "        write!(f, \"{:02x}\", self.0[1])?;", "        write!(f, \"{:x}\", self.0[1])?;"),
 ("c04_df16_ri", "C04", "libadsb_deku/src/lib.rs", "        #[deku(bits = \"2\")]\n        spare2: u8,\n        #[deku(bits = \"4\")]\n        ri: u8,\n        #[deku(bits = \"2\")]\n        spare3: u8,", "        #[deku(bits = \"3\")]\n        spare2: u8,\n        #[deku(bits = \"4\")]\n        ri: u8,\n        #[deku(bits = \"1\")]\n        spare3: u8,"),
 ("c04_trailing_87", "C04", "libadsb_deku/src/lib.rs", "const TRAILING_START: usize = 88;", "const TRAILING_START: usize = 80;"),
 # C05
 ("c05_nl_const", "C05", "libadsb_deku/src/cpr.rs", "if lat < 48.160_391_28 {", "if lat < 48.190_391_28 {"),
 ("c05_latest", "C05", "libadsb_deku/src/cpr.rs", "let lat = if latest_frame == even_frame { lat_even } else { lat_odd };", "let lat = if latest_frame == odd_frame { lat_even } else { lat_odd };"),
 ("c05_270", "C05", "libadsb_deku/src/cpr.rs", "    if lat_odd >= 270.0 {\n        lat_odd -= 360.0;\n    }", "    if lat_odd > 275.0 {\n        lat_odd -= 360.0;\n    }"),
 # C06
 ("c06_gillham_const", "C06", "libadsb_deku/src/mode_ac.rs", "five_hundreds ^= 0x01f;", "five_hundreds ^= 0x01e;"),
 ("c06_q_mask", "C06", "libadsb_deku/src/lib.rs", "let n = ((num & 0x1f80) >> 2) | ((num & 0x0020) >> 1) | (num & 0x000f);", "let n = ((num & 0x1f80) >> 2) | ((num & 0x0020) >> 1) | (num & 0x0007);"),
 # C07
 ("c07_atan2_wrap", "C07", "libadsb_deku/src/adsb.rs", "let heading = if h < 0.0 { h + 360.0 } else { h };", "let heading = if h <= 0.0 { h + 360.0 } else { h };"),
 ("c07_gnss_diff", "C07", "libadsb_deku/src/adsb.rs", "Ok(if gnss_baro_diff > 1 {(gnss_baro_diff - 1)* 25} else { 0 })", "Ok(if gnss_baro_diff > 1 {gnss_baro_diff * 25} else { 0 })"),
 # C08
 ("c08_space", "C08", "libadsb_deku/src/lib.rs", "        if c != 32 {\n            chars.push(c);\n        }", "        if c != 32 && c != 0 {\n            chars.push(c);\n        }"),
 # C09
 ("c09_swap_bits", "C09", "libadsb_deku/src/lib.rs", "        let b1 = (num & 0b0_0000_0010_0000) >> 5;\n        let d1 = (num & 0b0_0000_0001_0000) >> 4;", "        let d1 = (num & 0b0_0000_0010_0000) >> 5;\n        let b1 = (num & 0b0_0000_0001_0000) >> 4;"),
 ("c09_mode_ac", "C09", "libadsb_deku/src/mode_ac.rs", "    if id13_field & 0x0008 != 0 {\n        hex_gillham |= 0x0200;", "    if id13_field & 0x0008 != 0 {\n        hex_gillham |= 0x0400;"),
 # C10
 ("c10_swap_flags", "C10", "libadsb_deku/src/adsb.rs", "    #[deku(bits = \"1\")]\n    pub autopilot: bool,\n    #[deku(bits = \"1\")]\n    pub vnac: bool,", "    #[deku(bits = \"1\")]\n    pub vnac: bool,\n    #[deku(bits = \"1\")]\n    pub autopilot: bool,"),
 ("c10_qnh", "C10", "libadsb_deku/src/adsb.rs", "Ok(800.0 + ((qnh - 1) as f32) * 0.8)", "Ok(800.0 + (qnh as f32) * 0.8)"),
 ("c10_dispatch", "C10", "libadsb_deku/src/adsb.rs", "#[deku(id_pat = \"9..=18\")]\n    AirbornePositionBaroAltitude(Altitude),", "#[deku(id_pat = \"9..=18 | 23\")]\n    AirbornePositionBaroAltitude(Altitude),"),
 # C11
 ("c11_ceil", "C11", "libadsb_deku/src/adsb.rs", "libm::ceil(heading as f64)", "libm::floor(heading as f64)"),
 ("c11_cpr_swap", "C11", "libadsb_deku/src/lib.rs", "        writeln!(f, \"  CPR latitude:  ({})\", self.lat_cpr)?;\n        writeln!(f, \"  CPR longitude: ({})\", self.lon_cpr)?;", "        writeln!(f, \"  CPR latitude:  ({})\", self.lon_cpr)?;\n        writeln!(f, \"  CPR longitude: ({})\", self.lat_cpr)?;"),
 ("c11_lw", "C11", "libadsb_deku/src/adsb.rs", "        if self.lw_codes != 0 {", "        if self.lw_codes > 1 {"),
 # C12
 ("c12_double_count", "C12", "rsadsb_common/src/lib.rs", "        let (state, airplane_added) = self.entry_or_insert(icao);\n        state.callsign = Some(identification.cn.clone());", "        let (state, airplane_added) = self.entry_or_insert(icao);\n        state.num_messages += u32::from(state.callsign.is_none());\n        state.callsign = Some(identification.cn.clone());"),
 ("c12_pi", "C12", "rsadsb_common/src/lib.rs", "ME::AirborneVelocity(vel) => self.add_airborne_velocity(icao, &vel),\n                    ME::AirbornePositionGNSSAltitude(altitude)\n                    | ME::AirbornePositionBaroAltitude(altitude) => {\n                        self.update_position(icao, &altitude, lat_long, max_rang)", "ME::AirborneVelocity(vel) => self.add_airborne_velocity(pi, &vel),\n                    ME::AirbornePositionGNSSAltitude(altitude)\n                    | ME::AirbornePositionBaroAltitude(altitude) => {\n                        self.update_position(icao, &altitude, lat_long, max_rang)"),
 ("c12_squawk_from_df5", "C12", "rsadsb_common/src/lib.rs", "            _ => (),\n        }\n\n        airplane_added", "            DF::SurveillanceIdentityReply { id, .. } => {\n                let icao = ICAO([(frame.crc >> 16) as u8, (frame.crc >> 8) as u8, frame.crc as u8]);\n                if let Some(state) = self.0.get_mut(&icao) {\n                    state.squawk = Some(u32::from(id.0));\n                }\n            }\n            _ => (),\n        }\n\n        airplane_added"),
 ("c15_touch_survivor", "C15", "rsadsb_common/src/lib.rs", "                if time < std::time::Duration::from_secs(filter_time) {\n                    true", "                if time < std::time::Duration::from_secs(filter_time) {\n                    v.on_ground = Some(false);\n                    true"),
 # C13
 ("c13_clear_one", "C13", "rsadsb_common/src/lib.rs", "            // clear record\n            state.coords = AirplaneCoor::default();", "            // clear record\n            state.coords = AirplaneCoor { altitudes: [None, state.coords.altitudes[1]], ..AirplaneCoor::default() };"),
 ("c13_jump_const", "C13", "rsadsb_common/src/lib.rs", "const MAX_AIRCRAFT_DISTANCE: f64 = 100.0;", "const MAX_AIRCRAFT_DISTANCE: f64 = 160.0;"),
 ("c13_radius", "C13", "rsadsb_common/src/lib.rs", "let r = 6371.00;", "let r = 6378.00;"),
 # C14
 ("c14_velocity_erase", "C14", "rsadsb_common/src/lib.rs", "            state.vert_speed = Some(vert_speed);\n        }", "            state.vert_speed = Some(vert_speed);\n        } else {\n            state.heading = None;\n        }"),
 ("c14_all_position", "C14", "rsadsb_common/src/lib.rs", "            if let Some(position) = &coor.position {\n                all_lat_long.push((*key, *position));", "            if let (Some(position), Some(_)) = (&coor.position, coor.altitude()) {\n                all_lat_long.push((*key, *position));"),
 # C15
 ("c15_le", "C15", "rsadsb_common/src/lib.rs", "if time < std::time::Duration::from_secs(filter_time) {", "if time <= std::time::Duration::from_secs(filter_time) {"),
 ("c15_refresh_ident", "C15", "rsadsb_common/src/lib.rs", "        state.num_messages += 1;\n        #[cfg(feature = \"std\")]\n        {\n            state.last_time = std::time::SystemTime::now();\n        }", "        state.num_messages += 1;\n        #[cfg(feature = \"std\")]\n        if state.num_messages % 8 != 0 {\n            state.last_time = std::time::SystemTime::now();\n        }"),
 # C16
 ("c16_clear_on_timeout", "C16", "apps/src/radar/radar.rs", "            // read timeout: keep the partial line in `input` for the next read\n            Err(_) => (),", "            // read timeout\n            Err(_) => input.clear(),"),
 # C17
 ("c17_enter_unwrap", "C17", "apps/src/radar/radar.rs", "airplanes_state.selected().and_then(|selected| adsb_airplanes.keys().nth(selected))", "airplanes_state.selected().map(|selected| adsb_airplanes.keys().nth(selected).unwrap())"),
 ("c17_ctrlc_no_cleanup", "C17", "apps/src/radar/radar.rs", "        None => return restore_terminal(&mut terminal, &QuitReason::UserRequested),", "        None => return Ok(()),"),
 # C18
 ("c18_lon_sign", "C18", "apps/src/radar/radar.rs", "let x = (long + 180.0) * (scale / 360.0);", "let x = (180.0 - long) * (scale / 360.0);"),
 ("c18_total", "C18", "apps/src/radar/stats.rs", "        if airplane_added == Added::Yes {\n            self.total_airplanes += 1;\n        }", "        if airplane_added == Added::Yes && current_len as u32 > most_airplanes {\n            self.total_airplanes += 1;\n        }"),
 ("c18_precision", "C18", "apps/src/radar/airplanes.rs", "            lon = format!(\"{:.DEFAULT_PRECISION$}\", position.longitude);", "            lon = format!(\"{:.DEFAULT_PRECISION$}\", position.longitude.abs());"),
 # C19
 ("c19_pos_on_err", "C19", "libadsb_deku/src/lib.rs", "        let n = self.reader.read(buf)?;\n        let already_cached", "        let n = match self.reader.read(buf) {\n            Ok(n) => n,\n            Err(e) => {\n                self.pos += 1;\n                return Err(e);\n            }\n        };\n        let already_cached"),
 # C20
 ("c20_std_only", "C20", "rsadsb_common/src/lib.rs", "                && state.coords.kilo_distance == temp_coords.kilo_distance;", "                && state.coords.kilo_distance == temp_coords.kilo_distance\n                && cfg!(not(feature = \"std\"));"),
]
import pathlib
pathlib.Path(OUT).mkdir(exist_ok=True)
ok = 0
for name, prop, file, old, new in M:
    subprocess.run(["git", "-C", W, "checkout", "-q", "--", "."], check=True)
    p = os.path.join(W, file)
    s = open(p).read()
    if s.count(old) != 1:
        print(f"!! {name}: pattern found {s.count(old)} times in {file}")
        continue
    open(p, "w").write(s.replace(old, new))
    d = subprocess.run(["git", "-C", W, "diff"], capture_output=True, text=True).stdout
    open(os.path.join(OUT, f"{prop}_{name}.patch"), "w").write(d)
    ok += 1
subprocess.run(["git", "-C", W, "checkout", "-q", "--", "."], check=True)
print(ok, "patches written of", len(M))
