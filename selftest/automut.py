#!/usr/bin/env python3
"""Automatic mutation sweep: a gap finder for the monitors, not a registered check.

Generates single-token mutants (relational / arithmetic / logical / shift operators, integer and
float literals +-1, min/max, floor/ceil/round, sin/cos, true/false, statement deletion) of the
library sources of the repository under test, applies each one to a scratch worktree outside /repo
and /verif, and runs the quick tier of the library checks against it (VERIF_REPO=<worktree>).
A mutant that no check reports is then run against the repository's own test suite; if that also
passes, it is a SURVIVOR and is listed for manual triage (equivalent mutant, or a gap to close).

  automut.py gen   [--apps]                      -> prints the number of mutants per file
  automut.py run   [--apps] [--workers N] [--limit K] [--shuffle-seed S] [--only-file F] [--resume]
  automut.py report                               -> writes selftest/AUTOMUT.md from results.jsonl

Results go to selftest/automut/results.jsonl (one JSON object per mutant, append-only).
"""
import sys, os, re, json, random, subprocess, threading, queue, hashlib, time, argparse, shutil

HERE = os.path.dirname(os.path.abspath(__file__))
VERIF = os.path.dirname(HERE)
REPO = "/repo"
OUTDIR = os.path.join(HERE, "automut")
RESULTS = os.path.join(OUTDIR, "results.jsonl")
WROOT = "/tmp/mw"

LIB_FILES = ["libadsb_deku/src/adsb.rs", "libadsb_deku/src/bds.rs", "libadsb_deku/src/cpr.rs",
             "libadsb_deku/src/crc.rs", "libadsb_deku/src/lib.rs", "libadsb_deku/src/mode_ac.rs",
             "rsadsb_common/src/lib.rs"]
APP_FILES = ["apps/src/1090/1090.rs", "apps/src/radar/airplanes.rs", "apps/src/radar/airport.rs",
             "apps/src/radar/cli.rs", "apps/src/radar/coverage.rs", "apps/src/radar/help.rs",
             "apps/src/radar/map.rs", "apps/src/radar/radar.rs", "apps/src/radar/stats.rs"]

# which checks to try first for a file (the rest of the library checks follow)
FIRST = {
    "libadsb_deku/src/cpr.rs": ["C05", "C13"],
    "libadsb_deku/src/crc.rs": ["C03", "C02"],
    "libadsb_deku/src/mode_ac.rs": ["C06", "C09"],
    "libadsb_deku/src/bds.rs": ["C10", "C08", "C11"],
    "libadsb_deku/src/adsb.rs": ["C10", "C11", "C07", "C02"],
    "libadsb_deku/src/lib.rs": ["C04", "C11", "C06", "C09", "C02", "C10", "C08"],
    "rsadsb_common/src/lib.rs": ["C12", "C13", "C14", "C15"],
}
LIB_CHECKS = ["C10", "C11", "C04", "C02", "C03", "C06", "C07", "C08", "C09", "C05", "C12", "C13",
              "C14", "C15", "C01", "C19", "C20"]
APP_CHECKS = ["C17", "C18", "C16"]

OPS = [
    (r"==", ["!="]), (r"!=", ["=="]),
    (r"<=", ["<"]), (r">=", [">"]),
    (r"(?<= )<(?= )", ["<="]), (r"(?<= )>(?= )", [">="]),
    (r"(?<= )\+(?= )", ["-"]), (r"(?<= )-(?= )", ["+"]),
    (r"(?<= )\*(?= )", ["/"]), (r"(?<= )/(?= )", ["*"]),
    (r"(?<= )%(?= )", ["/"]),
    (r"\+=", ["-="]), (r"-=", ["+="]),
    (r"&&", ["||"]), (r"(?<= )\|\|(?= )", ["&&"]),
    (r"<<", [">>"]), (r">>", ["<<"]),
    (r"(?<= )&(?= )", ["|"]), (r"(?<= )\|(?= )", ["&"]), (r"(?<= )\^(?= )", ["|"]),
    (r"\btrue\b", ["false"]), (r"\bfalse\b", ["true"]),
    (r"\.min\(", [".max("]), (r"\.max\(", [".min("]),
    (r"\bfloor\b", ["ceil", "round"]), (r"\bceil\b", ["floor"]), (r"\bround\b", ["floor"]),
    (r"\bcos\b", ["sin"]), (r"\bsin\b", ["cos"]),
    (r"\bis_some\b", ["is_none"]), (r"\bis_none\b", ["is_some"]),
    (r"\bchecked_sub\b", ["checked_add"]),
    (r"\bis_empty\(\)", ["is_empty() == false"]),
]
INT_RE = re.compile(r"(?<![\w.\"])(0x[0-9a-fA-F_]+|0b[01_]+|\d[\d_]*)(?![\w.\"]|\.\d)")
FLT_RE = re.compile(r"(?<![\w.\"])(\d[\d_]*\.\d[\d_]*)(?![\w\"])")


def code_span(line):
    """(start, end) of the part of the line that is code: not a // comment, and string literals
    are masked out by the caller."""
    s = line
    # find // outside of a string literal
    in_str = False; i = 0
    while i < len(s):
        c = s[i]
        if c == '\\' and in_str: i += 2; continue
        if c == '"': in_str = not in_str
        elif not in_str and s.startswith("//", i): return 0, i
        i += 1
    return 0, len(s)


def mask_strings(s):
    out = []; in_str = False; i = 0
    while i < len(s):
        c = s[i]
        if in_str and c == '\\': out.append("  "); i += 2; continue
        if c == '"': in_str = not in_str; out.append('"')
        else: out.append(' ' if in_str else c)
        i += 1
    return "".join(out)


def gen_file(rel, text):
    lines = text.split("\n")
    muts = []
    in_tests = False; in_block = False
    for ln, line in enumerate(lines):
        st = line.strip()
        if in_block:
            if "*/" in st: in_block = False
            continue
        if st.startswith("/*"):
            if "*/" not in st: in_block = True
            continue
        # the 256-entry CRC table and the 59-step NL ladder: sample, do not enumerate
        if re.match(r"0x[0-9a-fA-F_]+,$", st) and ln % 16 != 0: continue
        if re.match(r"return \d+;$", st) and ln % 4 != 0: continue
        if re.match(r"(} else )?if lat < [\d_.]+ \{$", st) and ln % 4 != 1: continue
        if st.startswith("#[cfg(test)]"): in_tests = True
        if in_tests: continue
        if not st or st.startswith("//") or st.startswith("use ") or st.startswith("#!["): continue
        a, b = code_span(line)
        code = mask_strings(line[a:b])
        is_attr = st.startswith("#[")
        if is_attr and "deku" not in st: continue
        if is_attr:
            # deku attribute expressions live inside string literals: mutate the literal's content
            # of map/cond/assert expressions only (bit widths change the layout and are caught by anything)
            for m in re.finditer(r'(cond|map|assert|assert_eq|pad_bits_before|pad_bits_after|id_pat)\s*=\s*"([^"]*)"', line):
                inner = m.group(2); off = m.start(2)
                for rx, reps in OPS[:14]:
                    for mm in re.finditer(rx, inner):
                        for rep in reps:
                            muts.append((ln, off + mm.start(), off + mm.end(), rep))
                for mm in INT_RE.finditer(inner):
                    muts += int_muts(ln, off + mm.start(), off + mm.end(), mm.group(1))
            continue
        for rx, reps in OPS:
            for mm in re.finditer(rx, code):
                # skip '->' '=>' and generics
                if mm.group(0) in (">", "<") and ("->" in code[max(0, mm.start()-1):mm.end()+1] or "=>" in code[max(0, mm.start()-1):mm.end()+1]): continue
                if mm.group(0) == ">=" and code[mm.start()-1:mm.start()] == "=": continue
                if mm.group(0) == ">>" and re.search(r"<[^<>]*<[^<>]*$", code[:mm.start()]): continue  # nested generics
                for rep in reps:
                    muts.append((ln, a + mm.start(), a + mm.end(), rep))
        for mm in INT_RE.finditer(code):
            muts += int_muts(ln, a + mm.start(), a + mm.end(), mm.group(1))
        for mm in FLT_RE.finditer(code):
            try: v = float(mm.group(1).replace("_", ""))
            except ValueError: continue
            muts.append((ln, a + mm.start(), a + mm.end(), repr(v + 1.0)))
            if v >= 1.0: muts.append((ln, a + mm.start(), a + mm.end(), repr(v - 1.0)))
        # statement deletion
        if (st.endswith(";") and "{" not in st and "}" not in st and
                not re.match(r"(let|use|pub|const|static|type|return|break|continue|mod|extern|#)\b", st)
                and not st.startswith(".") and re.match(r"[\w*&(]", st)):
            prev = lines[ln-1].strip() if ln else ""
            if prev.endswith(";") or prev.endswith("{") or prev.endswith("}") or prev == "":
                muts.append((ln, 0, len(line), "DELETE"))
    out = []
    for (ln, s, e, rep) in muts:
        old = lines[ln]
        new = "" if rep == "DELETE" else old[:s] + rep + old[e:]
        if new == old: continue
        out.append({"file": rel, "line": ln + 1, "col": s, "old": old.strip(), "new": new.strip() if rep != "DELETE" else "(deleted)",
                    "newline": new})
    return out


def int_muts(ln, s, e, tok):
    t = tok.replace("_", "")
    try:
        if t.startswith("0x"): v = int(t, 16); fmt = lambda x: hex(x)
        elif t.startswith("0b"): v = int(t, 2); fmt = lambda x: bin(x)
        else: v = int(t); fmt = str
    except ValueError:
        return []
    out = [(ln, s, e, fmt(v + 1))]
    if v > 0: out.append((ln, s, e, fmt(v - 1)))
    return out


def all_mutants(files):
    ms = []
    for rel in files:
        text = open(os.path.join(REPO, rel)).read()
        for m in gen_file(rel, text):
            m["id"] = hashlib.md5(f'{m["file"]}:{m["line"]}:{m["col"]}:{m["newline"]}'.encode()).hexdigest()[:10]
            ms.append(m)
    return ms


def sh(cmd, cwd=None, env=None, timeout=1800):
    try:
        p = subprocess.run(cmd, cwd=cwd, env=env, stdout=subprocess.PIPE, stderr=subprocess.STDOUT, timeout=timeout, text=True, errors="replace")
        return p.returncode, p.stdout
    except subprocess.TimeoutExpired as e:
        return 124, (e.stdout or "") if isinstance(e.stdout, str) else ""


def worker(idx, q, lock, apps, seed):
    W = f"{WROOT}/auto-{'app' if apps else ''}{idx}"
    if not os.path.exists(os.path.join(W, ".git")):
        os.makedirs(WROOT, exist_ok=True)
        sh(["git", "-C", REPO, "worktree", "add", "--detach", W, "HEAD", "-q"])
    head = subprocess.check_output(["git", "-C", REPO, "rev-parse", "HEAD"], text=True).strip()
    sh(["git", "-C", W, "checkout", "-q", "--detach", head]); sh(["git", "-C", W, "checkout", "-q", "--", "."])
    env = dict(os.environ, VERIF_REPO=W, VERIF_SEED=str(seed), CARGO_NET_OFFLINE="true")
    while True:
        try: m = q.get_nowait()
        except queue.Empty: return
        path = os.path.join(W, m["file"])
        orig = open(path).read()
        lines = orig.split("\n"); lines[m["line"] - 1] = m["newline"]
        open(path, "w").write("\n".join(lines))
        t0 = time.time()
        res = {k: m[k] for k in ("id", "file", "line", "old", "new")}
        checks = APP_CHECKS if apps else (FIRST.get(m["file"], []) + [c for c in LIB_CHECKS if c not in FIRST.get(m["file"], [])])
        verdict = None; tried = []
        for c in checks:
            rc, out = sh([os.path.join(VERIF, "check"), c, "quick"], env=env, timeout=1500)
            tried.append(c)
            if rc == 1:
                sig = [l.strip() for l in out.split("\n") if "signature" in l][:2]
                verdict = "caught"; res["by"] = c; res["sig"] = sig; break
            if rc == 2:
                if "does not build" in out or "do not build" in out: verdict = "no-compile"; break
                # another inconclusive (hang watchdog, harness trouble): record and go on
                res.setdefault("inconclusive", []).append(c)
            elif rc != 0:
                res.setdefault("inconclusive", []).append(f"{c}:rc{rc}")
        if verdict is None:
            rc, out = sh(["cargo", "test", "--workspace", "--no-fail-fast", "--offline", "--target-dir", os.path.join(W, "target")], cwd=W, env=env, timeout=1800)
            verdict = "SURVIVOR" if rc == 0 else "killed-by-suite-only"
        res["verdict"] = verdict; res["checks_tried"] = len(tried); res["secs"] = round(time.time() - t0, 1)
        open(path, "w").write(orig)
        with lock:
            with open(RESULTS, "a") as f: f.write(json.dumps(res) + "\n")
            print(f'[{idx}] {verdict:22s} {m["file"]}:{m["line"]}  {m["old"][:60]!r} -> {m["new"][:60]!r}  {res.get("by","")}', flush=True)


def main():
    ap = argparse.ArgumentParser()
    ap.add_argument("cmd", choices=["gen", "run", "report"])
    ap.add_argument("--apps", action="store_true")
    ap.add_argument("--workers", type=int, default=6)
    ap.add_argument("--limit", type=int, default=0)
    ap.add_argument("--shuffle-seed", type=int, default=1)
    ap.add_argument("--only-file", default=None)
    ap.add_argument("--seed", type=int, default=1)
    a = ap.parse_args()
    os.makedirs(OUTDIR, exist_ok=True)
    files = APP_FILES if a.apps else LIB_FILES
    if a.only_file: files = [f for f in files if a.only_file in f]
    if a.cmd == "report": return report()
    ms = all_mutants(files)
    if a.cmd == "gen":
        by = {}
        for m in ms: by[m["file"]] = by.get(m["file"], 0) + 1
        for f, n in sorted(by.items()): print(f"{n:6d} {f}")
        print(f"{len(ms):6d} total")
        return
    done = set()
    if os.path.exists(RESULTS):
        for l in open(RESULTS):
            try: done.add(json.loads(l)["id"])
            except Exception: pass
    random.Random(a.shuffle_seed).shuffle(ms)
    ms = [m for m in ms if m["id"] not in done]
    if a.limit: ms = ms[:a.limit]
    print(f"{len(ms)} mutants to run ({len(done)} already recorded)", flush=True)
    q = queue.Queue()
    for m in ms: q.put(m)
    lock = threading.Lock()
    ts = [threading.Thread(target=worker, args=(i, q, lock, a.apps, a.seed)) for i in range(a.workers)]
    for t in ts: t.start()
    for t in ts: t.join()


def report():
    rs = {}
    for l in open(RESULTS):
        r = json.loads(l); rs[r["id"]] = r
    rs = list(rs.values())
    tot = {}
    for r in rs: tot[r["verdict"]] = tot.get(r["verdict"], 0) + 1
    by_check = {}
    for r in rs:
        if r["verdict"] == "caught": by_check[r["by"]] = by_check.get(r["by"], 0) + 1
    tri = {}
    tp = os.path.join(OUTDIR, "triage.json")
    if os.path.exists(tp): tri = json.load(open(tp))
    with open(os.path.join(HERE, "AUTOMUT.md"), "w") as f:
        f.write("# Automatic mutation sweep (selftest/automut.py)\n\n")
        f.write("Single-token mutants of the repository sources, each run against the quick tier of the checks\n"
                "(`VERIF_REPO=<scratch worktree>`); mutants no check reports are then run against the repository's own\n"
                "test suite. `SURVIVOR` = compiles, passes the repository's tests, and no quick check reported it.\n\n")
        f.write("| verdict | mutants |\n|---|---|\n")
        for k, v in sorted(tot.items()): f.write(f"| {k} | {v} |\n")
        f.write("\nCaught, by first reporting check: " + ", ".join(f"{k}: {v}" for k, v in sorted(by_check.items())) + "\n\n")
        f.write("## Survivors and their triage\n\n")
        for r in sorted([r for r in rs if r["verdict"] == "SURVIVOR"], key=lambda r: (r["file"], r["line"])):
            t = tri.get(r["id"], "(not triaged)")
            f.write(f'- `{r["file"]}:{r["line"]}` `{r["old"]}` -> `{r["new"]}` [{r["id"]}] — {t}\n')
        f.write("\n## Killed only by the repository's own tests (no quick check reported them)\n\n")
        for r in sorted([r for r in rs if r["verdict"] == "killed-by-suite-only"], key=lambda r: (r["file"], r["line"])):
            t = tri.get(r["id"], "(not triaged)")
            f.write(f'- `{r["file"]}:{r["line"]}` `{r["old"]}` -> `{r["new"]}` [{r["id"]}] — {t}\n')
    print(json.dumps(tot))


if __name__ == "__main__":
    main()
