#!/usr/bin/env bash
# Run once after a fresh restore, offline: builds the harness (and the repository's crates) so
# that the per-check rebuilds are incremental.
set -u
cd "$(dirname "$0")"
export CARGO_NET_OFFLINE=true
./check selfcheck quick || exit 1
