"""A radar (or 1090) session: process + feed server + screen parsing helpers."""
import os, re, shutil, subprocess, tempfile, threading, time

import procs

WIDTHS = [6, 9, 7, 7, 7, 8, 6, 5, 8, 6]
NAMES = ["icao", "callsign", "lat", "lon", "heading", "alt", "fpm", "speed", "dist", "msgs"]
PANIC_RE = re.compile(r"panicked at ([^\s:]+:\d+)")


class Inconclusive(Exception):
    pass


class RadarSession:
    def __init__(self, binpath, plan, lat=52.0, lon=4.0, opts=(), rows=50, cols=150, scratch=None, listen=True, accept_timeout=25.0, env_extra=None):
        self.scratch = tempfile.mkdtemp(prefix="radar-", dir=scratch)
        self.srv = procs.FeedServer(plan, accept_timeout=accept_timeout, listen=listen)
        port = self.srv.port
        if listen:
            self.srv.start()
        # else: nothing listens (the port is bound, so it cannot be handed to another server of this
        # run): radar stays in "Waiting for connection"
        argv = [os.path.join(binpath, "radar"), "--port", str(port), f"--lat={lat}", f"--long={lon}", "--log-folder", os.path.join(self.scratch, "logs")] + list(opts)
        self.argv = argv
        # every fourth radar session runs with logging switched on (RUST_LOG=trace): the arguments of
        # the log lines of client and library are code too, and an operator may switch them on
        RadarSession.counter = getattr(RadarSession, "counter", 0) + 1
        env = {"RUST_LOG": "trace"} if RadarSession.counter % 4 == 0 else {}
        # the time stamps of the Stats tab are local time: sessions run in zones with whole-hour,
        # half-hour, seconds-precision (local mean time) and extreme offsets, and with a malformed TZ
        tz = [None, "UTC0", "CET-1CEST", "LMT-0:19:32", "IST-5:30", "XXX+12:34:56", "NZDT-13:45", ":/nonexistent/zone", "AAA+24"][RadarSession.counter % 9]
        if tz is not None:
            env["TZ"] = tz
        if env_extra:
            env.update(env_extra)
        env = env or None
        self.p = procs.PtyProc(argv, rows=rows, cols=cols, env=env, cwd=self.scratch)
        self.events = []

    # ---- control
    def wait_connected(self, timeout=20.0):
        end = time.monotonic() + timeout
        while time.monotonic() < end:
            self.p.pump(0.05)
            if self.srv.connections >= 1:
                return True
            if not self.p.alive():
                if self.p.p.returncode == 2 and "Usage:" in self.p.raw.decode("utf-8", "replace"):
                    raise Inconclusive("the driver passed arguments radar's command line rejects")
                return False
        raise Inconclusive("radar never connected to the feed server")

    def wait_feed_done(self, timeout=60.0):
        end = time.monotonic() + timeout
        while time.monotonic() < end:
            self.p.pump(0.05)
            if self.srv.done.is_set():
                return True
            if not self.p.alive():
                return False
        raise Inconclusive("feed plan did not finish in time")

    def key(self, name):
        self.events.append(("key", name))
        self.p.write(procs.KEYS[name])

    def send_raw(self, data, label):
        self.events.append(("raw", label))
        self.p.write(data)

    def settle(self, quiet=0.4, cap=10.0):
        if not self.p.settle(quiet, cap):
            # radar redraws on every loop iteration only when something changed; continuous output means traffic
            pass

    def ui_present(self):
        return any("rsadsb/radar" in l for l in self.p.screen.text()[:4])

    def widget_missing(self, key, present, tries=3):
        """The tab selected by `key` stays without its widget although the rest of the UI is drawn
        and the process is alive (True), or the widget shows up after all / nothing can be said (False)."""
        for _ in range(tries):
            self.key(key)
            self.p.settle(0.4, 4.0)
            if present():
                return False
        return self.p.alive() and self.ui_present()

    def panic_location(self):
        m = PANIC_RE.search(self.p.raw.decode("utf-8", "replace"))
        return m.group(1) if m else None

    # ---- screen parsing
    def tab_title_count(self):
        for line in self.p.screen.text()[:4]:
            m = re.search(r"Airplanes\((\d+)\)", line)
            if m:
                return int(m.group(1))
        return None

    def airplanes_rows(self):
        """Rows of the Airplanes tab (it must be the current tab). None if the table is not on screen.
        Column boundaries are taken from the header line, not from assumed widths."""
        txt = self.p.screen.text()
        hdr = None
        for i, line in enumerate(txt):
            if "ICAO" in line and "Call sign" in line and "Msgs" in line:
                hdr = (i, line)
                break
        if hdr is None:
            return None
        i0, h = hdr
        labels = [("icao", "ICAO", 0), ("callsign", "Call sign", 0), ("lat", "Lat", 0), ("lon", "Long", 0), ("heading", "Heading", 0),
                  ("alt", "Altitude", 0), ("fpm", "FPM", 3), ("speed", "Speed", 0), ("dist", "Distance", 0), ("msgs", "Msgs", 0)]
        starts = []
        pos = 0
        for name, lab, back in labels:
            j = h.find(lab, pos)
            if j < 0:
                return None
            starts.append(j - back)  # "   FPM" is right aligned inside its cell
            pos = j + len(lab)
        right = h.rfind("│")
        if right < 0:
            right = len(h)
        rows = []
        for line in txt[i0 + 1:]:
            if "└" in line or "┘" in line:
                break
            vals = {}
            for k, (name, _, _) in enumerate(labels):
                a = starts[k]
                b = starts[k + 1] if k + 1 < len(starts) else min(right, a + 6)
                vals[name] = line[a:b].strip()
            if re.fullmatch(r"[0-9a-f]{6}", vals["icao"]):
                rows.append(vals)
        return rows

    def close(self):
        # the client first: a client with --retry-tcp that outlives its server would knock on a port
        # that may by then belong to another session's server
        self.p.kill()
        self.srv.shutdown()
        shutil.rmtree(self.scratch, ignore_errors=True)


class Dump1090Session:
    """The `1090` client with stdout/stderr on pipes."""

    def __init__(self, binpath, plan, extra_opts=(), scratch=None, env_extra=None):
        self.srv = procs.FeedServer(plan)
        self.srv.start()
        self.out = bytearray()
        self.err = bytearray()
        self.p = subprocess.Popen([os.path.join(binpath, "1090"), "--host", "127.0.0.1", "--port", str(self.srv.port)] + list(extra_opts), stdin=subprocess.DEVNULL, stdout=subprocess.PIPE, stderr=subprocess.PIPE, env=dict(os.environ, **(env_extra or {})))
        self.t_last = time.monotonic()
        self.threads = [threading.Thread(target=self._rd, args=(self.p.stdout, self.out), daemon=True), threading.Thread(target=self._rd, args=(self.p.stderr, self.err), daemon=True)]
        for t in self.threads:
            t.start()

    def _rd(self, f, buf):
        while True:
            d = f.read1(65536) if hasattr(f, "read1") else f.read(4096)
            if not d:
                break
            buf.extend(d)
            self.t_last = time.monotonic()

    def wait_quiet(self, quiet=0.6, cap=60.0):
        end = time.monotonic() + cap
        while time.monotonic() < end:
            if self.srv.done.is_set() and time.monotonic() - max(self.t_last, self.srv.t_last_send or 0) >= quiet:
                return True
            if self.p.poll() is not None:
                return True
            time.sleep(0.05)
        raise Inconclusive("1090 output did not become quiet")

    def close(self):
        try:
            self.p.kill()
            self.p.wait(timeout=5)
        except Exception:
            pass
        self.srv.shutdown()
