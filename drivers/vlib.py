"""Shared plumbing of the python-side monitors: findings de-duplicated by signature,
known-finding classification, replay files, evidence files, exit status (mirrors
harness/vmon/src/collect.rs)."""
import fnmatch, json, os, re, time


class Collector:
    def __init__(self):
        self.by_sig = {}
        self.inconclusive = {}
        self.counters = {}
        self.classes = {}
        self.samples = []
        self.maxima = {}

    def add(self, prop, sig, detail, inp):
        if sig in self.by_sig:
            self.by_sig[sig]["count"] += 1
        elif len(self.by_sig) < 400 or sum(1 for f in self.by_sig.values() if f["prop"] == prop) < 400:
            self.by_sig[sig] = {"prop": prop, "detail": detail, "input": inp, "count": 1}

    def inconc(self, what):
        self.inconclusive[what] = self.inconclusive.get(what, 0) + 1

    def count(self, k, n=1):
        self.counters[k] = self.counters.get(k, 0) + n

    def cls(self, k):
        self.classes[k] = self.classes.get(k, 0) + 1

    def sample(self, v):
        if len(self.samples) < 12:
            self.samples.append(v)

    def max(self, k, v):
        if v > self.maxima.get(k, 0):
            self.maxima[k] = v


def load_known(path):
    try:
        return json.load(open(path)).get("findings", [])
    except Exception:
        return []


def sanitize(s):
    return re.sub(r"[^A-Za-z0-9.\-]", "_", s)[:120]


def finish(col, prop, tier, seed, level, rule, assumptions, verif, start, evaluations, distinct,
           exhaustive=False, extra=None, min_evaluations=1):
    known = [k for k in load_known(os.path.join(verif, "known_findings.json")) if k.get("status") == "known"]
    violations = 0
    known_hits, viol_list = [], []
    rdir = os.path.join(verif, "replay", prop)
    for sig, f in sorted(col.by_sig.items()):
        if f["prop"] != prop:
            continue
        k = next((k for k in known if k.get("property") == prop and fnmatch.fnmatchcase(sig, k.get("signature", ""))), None)
        short = f["detail"] if len(f["detail"]) < 600 else f["detail"][:600] + "…"
        if k:
            print(f"KNOWN-FINDING: property={prop} {sig} {k.get('what','')} (seen {f['count']}x; e.g. {short})")
            known_hits.append({"signature": sig, "count": f["count"], "listed_as": k["signature"]})
        else:
            violations += 1
            os.makedirs(rdir, exist_ok=True)
            path = os.path.join(rdir, sanitize(sig) + ".json")
            json.dump({"property": prop, "signature": sig, "detail": f["detail"], "input": f["input"],
                       "count": f["count"], "seed": seed, "tier": tier}, open(path, "w"), indent=1)
            print(f"VIOLATION property={prop} replay={path}")
            print(f"  signature: {sig}")
            print(f"  detail: {short}")
            viol_list.append({"signature": sig, "count": f["count"], "replay": path})
    for what, n in col.inconclusive.items():
        print(f"INCONCLUSIVE property={prop} {what} ({n}x)")
    other = {}
    for sig, f in col.by_sig.items():
        if f["prop"] != prop:
            other[f["prop"]] = other.get(f["prop"], 0) + f["count"]
    coverage = {
        "evaluations": int(evaluations),
        "distinct_nontrivial": int(distinct),
        "rule": rule,
        "samples": col.samples,
        "exhaustive": exhaustive,
        "counters": col.counters,
        "classes_observed": len(col.classes),
        "classes": col.classes,
        "maxima": col.maxima,
        "known_findings_seen": known_hits,
        "violations_found": viol_list,
        "inconclusive": col.inconclusive,
        "disagreements_attributed_to_other_properties": other,
    }
    if extra:
        coverage.update(extra)
    wall = time.time() - start
    ev = {"property_id": prop, "tier": tier, "seed": int(seed), "level": level, "coverage": coverage,
          "assumptions": assumptions, "wall_s": wall, "violations": violations}
    os.makedirs(os.path.join(verif, "evidence"), exist_ok=True)
    json.dump(ev, open(os.path.join(verif, "evidence", prop + ".json"), "w"), indent=1)
    print(f"{prop} {tier} seed={seed} evaluations={evaluations} distinct={distinct} classes={len(col.classes)} "
          f"violations={violations} known={len(known_hits)} wall={wall:.1f}s")
    if violations:
        return 1
    if evaluations < min_evaluations:
        print(f"INCONCLUSIVE property={prop} only {evaluations} judged executions (< {min_evaluations})")
        return 2
    return 0
