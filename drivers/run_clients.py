#!/usr/bin/env python3
"""C16-C18: process-level monitors for the `radar` and `1090` client binaries."""
import argparse, concurrent.futures, os, random, shutil, sys, tempfile, threading, time, traceback

sys.path.insert(0, os.path.dirname(__file__))
import vlib
from session import Inconclusive

ap = argparse.ArgumentParser()
ap.add_argument("prop")
ap.add_argument("--tier", default="quick")
ap.add_argument("--seed", type=int, default=1)
ap.add_argument("--repo", default="/repo")
ap.add_argument("--verif", default="/verif")
ap.add_argument("--bin", required=True)
ap.add_argument("--vmon", required=True)
ap.add_argument("--replay")
ap.add_argument("--workers", type=int, default=int(os.environ.get("VERIF_WORKERS", "22")))
a = ap.parse_args()
START = time.time()
col = vlib.Collector()
lock = threading.Lock()
_run = os.path.join(os.path.dirname(os.path.dirname(os.path.abspath(__file__))), "harness", "run")
os.makedirs(_run, exist_ok=True)
scratch = tempfile.mkdtemp(prefix="vclients-", dir=_run)


class LockedCol:
    """Scenarios run on a thread pool; the collector is shared behind one lock."""
    def __getattr__(self, name):
        f = getattr(col, name)
        def g(*x, **k):
            with lock:
                return f(*x, **k)
        return g


lcol = LockedCol()


def run_all(jobs):
    """jobs: list of (label, callable(rng)). Each gets its own RNG derived from (seed, label)."""
    def one(job):
        label, fn = job
        rng = random.Random(f"{a.seed}/{a.prop}/{label}")
        try:
            fn(rng)
        except Inconclusive as e:
            lcol.inconc(f"{label.split('#')[0]}: {e}")
        except Exception as e:
            lcol.inconc(f"harness error in {label.split('#')[0]}: {type(e).__name__}: {e}")
            traceback.print_exc()
    only = os.environ.get("VERIF_ONLY")  # development aid: run only the jobs whose label starts with this
    if only:
        jobs = [j for j in jobs if j[0].startswith(only)]
    with concurrent.futures.ThreadPoolExecutor(max_workers=a.workers) as ex:
        list(ex.map(one, jobs))


try:
    if a.prop == "C16":
        import c16
        code = c16.main(a, lcol, col, run_all, scratch, START)
    elif a.prop == "C17":
        import c17
        code = c17.main(a, lcol, col, run_all, scratch, START)
    elif a.prop == "C18":
        import c18
        code = c18.main(a, lcol, col, run_all, scratch, START)
    else:
        print("unknown property", a.prop)
        code = 2
finally:
    shutil.rmtree(scratch, ignore_errors=True)
sys.exit(code)
