#!/usr/bin/env python3
"""C20: compares the canonical outputs of the std / alloc-only / std+serde builds of the dumper."""
import argparse, itertools, os, sys, time
sys.path.insert(0, os.path.dirname(__file__))
import vlib

ap = argparse.ArgumentParser()
ap.add_argument("--work"); ap.add_argument("--tier"); ap.add_argument("--seed"); ap.add_argument("--verif"); ap.add_argument("--start", type=float)
a = ap.parse_args()
col = vlib.Collector()

def lines(name):
    with open(os.path.join(a.work, name), errors="replace") as f:
        for l in f:
            if l.startswith("ROUNDTRIP-FAIL") or l.startswith("# roundtrips"):
                continue
            yield l.rstrip("\n")

def kind(line):
    k = line[:1]
    return {"F": "frame", "P": "pair", "A": "tracker_action", "T": "tracker_state", "V": "tracker_views", "C": "derived_velocity"}.get(k, "other")

for other in ("alloc", "serde"):
    n = 0
    for ls, lo in itertools.zip_longest(lines("out-std.txt"), lines(f"out-{other}.txt")):
        n += 1
        col.count(f"lines_compared_std_vs_{other}")
        if ls is None or lo is None:
            col.add("C20", f"C20|output_length_differs|std_vs_{other}", f"line {n}: std has {ls is not None}, {other} has {lo is not None}", {"line": n})
            break
        col.cls(f"{kind(ls)}")
        if ls != lo:
            k = kind(ls)
            col.add("C20", f"C20|{k}_differs|std_vs_{other}", f"line {n}:\n std:   {ls[:1500]}\n {other}: {lo[:1500]}", {"line_no": n, "std": ls, other: lo})
# serde round trips
done = failed = 0
with open(os.path.join(a.work, "out-serde.txt"), errors="replace") as f:
    for l in f:
        if l.startswith("ROUNDTRIP-FAIL"):
            what = l.split()[1]
            col.add("C20", f"C20|serde_round_trip|{what}", l.strip()[:3000], {"line": l.strip()})
        elif l.startswith("# roundtrips"):
            for tok in l.split():
                if tok.startswith("done="): done = int(tok[5:])
                if tok.startswith("failed="): failed = int(tok[7:])
col.count("serde_round_trips", done)
col.count("serde_round_trip_failures", failed)
for v in ("std", "alloc", "serde"):
    err = open(os.path.join(a.work, f"err-{v}.txt"), errors="replace").read()
    if "panicked" in err:
        col.add("C01", f"C01|panic_in_dumper|{v}", err[:2000], {})
    elif err.strip():
        col.inconc(f"dumper {v} wrote to stderr: {err[:200]}")
if done == 0:
    col.inconc("the serde build performed no round trips")
with open(os.path.join(a.work, "corpus.txt")) as f:
    for i, l in enumerate(f):
        if i % 50000 == 0:
            col.sample(l.strip())
evals = col.counters.get("lines_compared_std_vs_alloc", 0) + col.counters.get("lines_compared_std_vs_serde", 0) + done
sys.exit(vlib.finish(col, "C20", a.tier, a.seed, "exploration",
    "one seeded corpus (frames of every class + random buffers, raw and true CPR pairs, tracker histories with duplicates/teleports/garbage) replayed by the same dumper built with std, alloc-only and std+serde features; every canonical line (Debug+Display of each frame or its error, each get_position result, Added + len after every action, tracker Debug with last_time masked and derived views every 16 steps) must be identical across builds; serde_json (float_roundtrip) round trip of every Ok frame and every dumped tracker state must reproduce its Debug (CBOR re-test before a float-only difference counts); distinct_nontrivial = serde round trips performed (each on a distinct decoded frame / tracker state)",
    ["alloc-only feature set is exercised on the host; the thumbv7em no_std target is not installed", "wall-clock timestamps (last_time) are masked in tracker dumps"],
    a.verif, a.start, evals, done, extra={"builds": ["std (default)", "default-features=false + alloc", "std + serde"]}, min_evaluations=1000))
