"""Minimal VT100/xterm screen model: enough for what crossterm/ratatui emit."""


class Screen:
    def __init__(self, rows, cols):
        self.resize(rows, cols)
        self.r = 0
        self.c = 0
        self.fg = None
        self.modes = {}          # DEC private modes last set/reset: number -> bool
        self.cursor_visible = True
        self.unknown = {}
        self.pending = ""

    def resize(self, rows, cols):
        self.rows, self.cols = rows, cols
        self.cells = [[(" ", None)] * cols for _ in range(rows)]

    def clear(self):
        self.cells = [[(" ", None)] * self.cols for _ in range(self.rows)]

    def put(self, ch):
        if 0 <= self.r < self.rows and 0 <= self.c < self.cols:
            self.cells[self.r][self.c] = (ch, self.fg)
        self.c += 1

    def feed(self, text: str):
        s = self.pending + text
        self.pending = ""
        i = 0
        n = len(s)
        while i < n:
            ch = s[i]
            if ch == "\x1b":
                if i + 1 >= n:
                    self.pending = s[i:]
                    return
                nx = s[i + 1]
                if nx == "[":
                    j = i + 2
                    while j < n and not ("@" <= s[j] <= "~"):
                        j += 1
                    if j >= n:
                        self.pending = s[i:]
                        return
                    self.csi(s[i + 2:j], s[j])
                    i = j + 1
                    continue
                if nx in "()":
                    if i + 2 >= n:
                        self.pending = s[i:]
                        return
                    i += 3
                    continue
                if nx == "]":
                    # OSC ... BEL / ST
                    j = i + 2
                    while j < n and s[j] != "\x07" and not (s[j] == "\x1b" and j + 1 < n and s[j + 1] == "\\"):
                        j += 1
                    if j >= n:
                        self.pending = s[i:]
                        return
                    i = j + (1 if s[j] == "\x07" else 2)
                    continue
                i += 2
                continue
            if ch == "\r":
                self.c = 0
            elif ch == "\n":
                self.r = min(self.r + 1, self.rows - 1)
            elif ch == "\b":
                self.c = max(0, self.c - 1)
            elif ch == "\x07" or ch == "\x00":
                pass
            else:
                self.put(ch)
            i += 1

    def csi(self, params, final):
        private = params.startswith("?")
        if private:
            params = params[1:]
        nums = []
        for p in params.split(";"):
            try:
                nums.append(int(p))
            except ValueError:
                nums.append(None)
        def arg(k, d):
            return nums[k] if k < len(nums) and nums[k] is not None else d
        if private and final in "hl":
            for m in nums:
                if m is None:
                    continue
                self.modes[m] = final == "h"
                if m == 25:
                    self.cursor_visible = final == "h"
            return
        if final in "Hf":
            self.r = arg(0, 1) - 1
            self.c = arg(1, 1) - 1
        elif final == "J":
            k = arg(0, 0)
            if k == 2 or k == 3:
                self.clear()
            elif k == 0:
                for cc in range(self.c, self.cols):
                    if 0 <= self.r < self.rows:
                        self.cells[self.r][cc] = (" ", None)
                for rr in range(self.r + 1, self.rows):
                    self.cells[rr] = [(" ", None)] * self.cols
        elif final == "K":
            if 0 <= self.r < self.rows:
                for cc in range(max(self.c, 0), self.cols):
                    self.cells[self.r][cc] = (" ", None)
        elif final == "m":
            k = 0
            if not nums or nums == [None]:
                nums = [0]
            while k < len(nums):
                v = nums[k]
                if v == 0 or v is None:
                    self.fg = None
                elif 30 <= v <= 37:
                    self.fg = v - 30
                elif 90 <= v <= 97:
                    self.fg = v - 90 + 8
                elif v == 39:
                    self.fg = None
                elif v == 38:
                    if k + 2 < len(nums) and nums[k + 1] == 5:
                        self.fg = nums[k + 2]
                        k += 2
                    elif k + 4 < len(nums) and nums[k + 1] == 2:
                        self.fg = ("rgb", nums[k + 2], nums[k + 3], nums[k + 4])
                        k += 4
                elif v == 48:
                    if k + 2 < len(nums) and nums[k + 1] == 5:
                        k += 2
                    elif k + 4 < len(nums) and nums[k + 1] == 2:
                        k += 4
                k += 1
        elif final == "A":
            self.r = max(0, self.r - arg(0, 1))
        elif final == "B":
            self.r = min(self.rows - 1, self.r + arg(0, 1))
        elif final == "C":
            self.c = min(self.cols - 1, self.c + arg(0, 1))
        elif final == "D":
            self.c = max(0, self.c - arg(0, 1))
        elif final == "G":
            self.c = arg(0, 1) - 1
        elif final == "d":
            self.r = arg(0, 1) - 1
        else:
            self.unknown[final] = self.unknown.get(final, 0) + 1

    def text(self):
        return ["".join(ch for ch, _ in row) for row in self.cells]

    def mouse_reporting(self):
        return [m for m in (1000, 1002, 1003, 1005, 1006, 1015) if self.modes.get(m)]
