"""C18: what the radar shows is the tracker's data, placed truthfully on the map."""
import json, math, os, random, re, subprocess, tempfile, time

import enc, procs, session
from session import Inconclusive

BRAILLE = lambda ch: 0x2800 <= ord(ch) <= 0x28FF and ch != "⠀"


def feedsim(vmon, lines, lat, lon, scratch, limit=False, max_range=None):
    fd, path = tempfile.mkstemp(prefix="feed-", suffix=".txt", dir=scratch)
    with os.fdopen(fd, "wb") as f:
        for l in lines:
            f.write(l)
    try:
        argv = [vmon, "feedsim", "--lat", str(lat), "--long", str(lon), "--lines", path]
        if limit:
            argv.append("--limit-parsing")
        if max_range is not None:
            argv += ["--max-range", str(max_range)]
        out = subprocess.run(argv, capture_output=True, text=True, timeout=60)
        if out.returncode != 0:
            raise Inconclusive(f"feedsim failed: {out.stderr[-200:]}")
        return json.loads(out.stdout)
    finally:
        os.unlink(path)


def traffic(rng, n, lat, lon, max_km=160):
    """n aircraft around the receiver in all four quadrants with identification, velocity, position;
    among them the unusual shapes: boundary addresses, callsigns with blanks and unassigned
    characters, altitudes of 0 ft and above 50 000 ft, supersonic speeds, an aircraft right above
    the receiver, surface position reports (counted, not placed)."""
    lines = []
    for k in range(n):
        addr = 0x3C0000 + rng.randrange(1 << 16) * 4 + (k % 4)
        if k == 2 and rng.random() < 0.5:
            addr = rng.choice([0x000000, 0x000001, 0xFFFFFE, 0x800000])
        brg = (k % 4) * 90 + rng.uniform(5, 85)
        la, lo = enc.destination(lat, lon, brg, rng.uniform(2, max_km))
        if k == 3 and rng.random() < 0.5:
            la, lo = lat, lon  # distance 0.000
        alt = 1000 + 25 * rng.randrange(1600)
        if rng.random() < 0.15:
            alt = rng.choice([-1000, -975, 0, 25, 50000, 50175])
        recs = []
        if rng.random() < 0.85:
            cs = rng.choice(["R%04dX" % rng.randrange(10000)] * 4 + ["AB  CD", "A#B#C#D#", "  LEAD", "X", "########", "12345678"])
            recs.append(enc.long_frame(17, 5, addr, enc.me_ident(rng.randint(1, 4), rng.randrange(8), cs)))
        if rng.random() < 0.8:
            recs.append(enc.long_frame(17, 5, addr, enc.me_velocity(rng.randrange(2), rng.choice([1, 2, 1023, rng.randrange(1, 700)]), rng.randrange(2), rng.choice([1, 1023, rng.randrange(1, 700)]), rng.randrange(2), rng.choice([1, 511, rng.randrange(1, 200)]), subtype=rng.choice([1, 1, 1, 2]))))
        if rng.random() < 0.1:
            # a surface position report: the tracker counts it and stores nothing from it
            m = bytearray(enc.me_unique(rng.choice([5, 6, 7, 8]), rng.randrange(1 << 40)))
            recs.append(enc.long_frame(17, 4, addr, bytes(m)))
        mode = rng.random()
        # a climbing aircraft: the even and the odd report carry different altitudes
        alt2 = alt + rng.choice([0, 0, 100, -225, 2000])
        if k % 5 == 4:
            # a TIS-B / ADS-R target whose first frame is of a type the tracker does not store
            recs.insert(0, enc.long_frame(18, rng.randrange(8), addr, enc.me_unique(rng.choice([0, 23, 30]), rng.randrange(1 << 40))))
        if mode < 0.75:
            recs.append(enc.long_frame(17, 5, addr, enc.me_airpos(11, alt, la, lo, False)))
            recs.append(enc.long_frame(17, 5, addr, enc.me_airpos(11, alt2, la, lo, True)))
        elif mode < 0.9:
            recs.append(enc.long_frame(17, 5, addr, enc.me_airpos(11, alt, la, lo, rng.random() < 0.5)))  # one parity only: blank position
        for _ in range(rng.randrange(0, 4)):
            recs.append(enc.long_frame(17, 5, addr, enc.me_unique(0, rng.randrange(1 << 40))))
        first = recs.pop(0) if k % 5 == 4 else None
        rng.shuffle(recs)
        if first is not None:
            recs.insert(0, first)
        if k % 4 == 1 and recs:
            # the first frame ever heard from this address arrives with a bit error in its parity
            # field (the library decodes it and reports a non-zero checksum; the tracker takes it)
            b = bytearray(recs[0])
            b[11 + rng.randrange(3)] ^= 1 << rng.randrange(8)
            recs[0] = bytes(b)
        elif k % 4 == 3 and len(recs) > 1:
            j = rng.randrange(1, len(recs))
            b = bytearray(recs[j])
            b[11 + rng.randrange(3)] ^= 1 << rng.randrange(8)
            recs[j] = bytes(b)
        # keep even before odd order irrelevant; the library decides what a pair means
        lines += [enc.line(r) for r in recs]
    return lines


SENTINELS = (0xFFFFF1, 0xFFFFF2)


def sentinel_line(k):
    return enc.line(enc.long_frame(17, 5, SENTINELS[k], enc.me_ident(4, 0, "ENDFEED")))


def wait_rows(sess, want_len, cap=60.0, sentinel=None):
    """Airplanes table once the feed's sentinel aircraft is on screen (all earlier lines have then
    been processed, however slow the client is) and the table stopped changing."""
    sess.key("F3")
    end = time.monotonic() + cap
    last = None
    since = time.monotonic()
    while time.monotonic() < end:
        sess.p.pump(0.15)
        if not sess.p.alive():
            return None
        rows = sess.airplanes_rows()
        snap = repr(rows)
        if snap != last:
            last, since = snap, time.monotonic()
            continue
        quiet = time.monotonic() - since
        seen = sentinel is None or (rows is not None and any(r["icao"] == "%06x" % sentinel for r in rows))
        # (without a sentinel "nothing changes any more" ends the wait; with one, only the sentinel
        # or the cap does: on a loaded machine a client can stand still for seconds, and a table
        # taken then would be a verdict by wall clock)
        if rows is not None and ((seen and quiet > 0.5 and (want_len is None or len(rows) >= want_len)) or (sentinel is None and quiet > 8.0)):
            return rows
    return sess.airplanes_rows()


def rows_equal(col, rows, sim, cls, inp, phase):
    want = {r["icao"]: r for r in sim["rows"]}
    got = {r["icao"]: r for r in rows}
    bad = []
    if set(want) != set(got):
        bad.append(f"aircraft shown {sorted(set(got) - set(want))} not tracked / tracked {sorted(set(want) - set(got))} not shown")
    for k in want:
        if k in got:
            for f in ["callsign", "lat", "lon", "heading", "alt", "fpm", "speed", "dist", "msgs"]:
                if want[k][f] != got[k][f]:
                    bad.append(f"{k}.{f}: screen {got[k][f]!r}, tracker {want[k][f]!r}")
    if bad:
        field = bad[0].split(":")[0].split(".")[-1] if "." in bad[0].split(":")[0] else "set"
        col.add("C18", f"C18|airplanes_tab_differs_from_tracker|{phase}|{field}", "; ".join(bad[:6]), inp)
    return not bad


def data_session(col, binpath, vmon, rng, tag, scratch):
    lat, lon = rng.choice([(52.0, 4.0), (0.5, 0.5), (-33.9, 151.2), (64.1, -21.9), (35.0, 179.5), (-0.3, -0.2), (89.2, 10.0), (-0.0004, 100.0)])
    n = rng.choice([1, 3, 8, 20, 30])
    lines = traffic(rng, n, lat, lon) + [sentinel_line(0)]
    limit = rng.random() < 0.2
    # display options must not change what the Airplanes tab says; the range setting goes to the oracle too
    extra_opts = [o for o in ["--disable-lat-long", "--disable-callsign", "--disable-icao", "--disable-heading", "--disable-track", "--touchscreen"] if rng.random() < 0.3]
    if rng.random() < 0.3:
        extra_opts += ["--scale=" + rng.choice(["0.05", "0.5", "3"])]
    max_range = rng.choice([None, None, 60.0, 5000.0])
    if max_range is not None:
        extra_opts += ["--max-range", str(max_range)]
    sim = feedsim(vmon, lines, lat, lon, scratch, limit, max_range)
    # a second batch, released after the view controls: updated positions of known aircraft + new aircraft
    lines2 = traffic(rng, rng.choice([1, 2, 5]), lat, lon)
    for l in lines[: len(lines) // 3]:
        lines2.append(l)
    rng.shuffle(lines2)
    lines2.append(sentinel_line(1))
    sim2 = feedsim(vmon, lines + lines2, lat, lon, scratch, limit, max_range)
    plan = [("send", b"".join(lines)), ("mark", "feed_done"), ("wait_for", "batch2"), ("send", b"".join(lines2)), ("mark", "feed2_done"), ("sleep", 90)]
    opts = ["--filter-time", "100000"] + (["--limit-parsing"] if limit else []) + extra_opts
    sess = session.RadarSession(binpath, plan, lat=lat, lon=lon, opts=opts, rows=60, cols=200, scratch=scratch)
    inp = {"receiver": [lat, lon], "options": opts, "lines": [l.decode() for l in lines], "tag": tag}
    try:
        sess.wait_connected()
        rows = wait_rows(sess, sim["len"], sentinel=SENTINELS[0])
        col.count("data_sessions")
        col.count("rows_compared", len(sim["rows"]))
        col.cls(f"data|n={n}")
        if rows is None:
            if not sess.p.alive():
                col.add("C17", f"C17|terminated_before_quit|{sess.panic_location()}", "radar died during a C18 session", inp)
                col.add("C18", f"C18|radar_died_while_showing_data|{sess.panic_location()}", "radar terminated during a data session: nothing is shown any more", inp)
                return
            if sess.widget_missing("F3", lambda: sess.airplanes_rows() is not None):
                col.add("C18", "C18|airplanes_tab_not_drawn", "the Airplanes tab is selected, the frame of the UI is on screen, but the table of aircraft is not drawn", inp)
                return
            raise Inconclusive("Airplanes table not on screen")
        ok = rows_equal(col, rows, sim, "", inp, "after_feed")
        tc = sess.tab_title_count()
        if tc != sim["len"]:
            col.add("C18", "C18|tab_title_count", f"tab title says {tc} aircraft, the tracker holds {sim['len']}", inp)
        # Stats tab
        sess.key("F4")
        sess.settle()
        tot = most = None
        t_end = time.monotonic() + 10
        while True:
            for l in sess.p.screen.text():
                m = re.search(r"Total Airplanes\s+All Time\s+(\d+)", l)
                if m:
                    tot = int(m.group(1))
                m = re.search(r"Most Airplanes\s+\S+\s+\S+\s+(\d+)", l)
                if m:
                    most = int(m.group(1))
            if (tot is not None and most is not None) or time.monotonic() > t_end or not sess.p.alive():
                break
            # a loaded machine: the tab switch has not been drawn yet
            sess.p.pump(0.2)
        col.count("stats_compared")
        if tot is None or most is None:
            if sess.widget_missing("F4", lambda: any("Total Airplanes" in l for l in sess.p.screen.text())):
                col.add("C18", "C18|stats_tab_not_drawn", "the Stats tab is selected, the frame of the UI is on screen, but the statistics are not drawn", inp)
            else:
                col.inconc("Stats rows not found on screen")
        else:
            if tot != sim["total_added"]:
                col.add("C18", "C18|stats_total_airplanes", f"Stats shows Total Airplanes {tot}; aircraft were newly added {sim['total_added']} times", inp)
            if most != sim["most"]:
                col.add("C18", "C18|stats_most_airplanes", f"Stats shows Most Airplanes {most}; largest simultaneous count was {sim['most']}", inp)
        # view controls change only the view
        sess.key("F1")
        seq = []
        if int(tag.split("#")[1]) % 2 == 1:
            # every other session starts with a mouse drag on the still unpanned view
            c0, r0 = rng.randrange(40, 160), rng.randrange(10, 50)
            for kind, dc, dr in (("down", 0, 0), ("drag", 3, 1), ("drag", 7, 3), ("drag", 9, 6), ("up", 9, 6)):
                sess.p.write(procs.mouse(kind, c0 + dc, r0 + dr))
                seq.append(f"{kind}@{c0 + dc},{r0 + dr}")
                sess.p.pump(0.03)
        for _ in range(rng.randint(1, 40)):
            r = rng.random()
            if r < 0.5:
                k = rng.choice(["-", "+", "Up", "Down", "Left", "Right", "Enter", "F2", "F1"])
                sess.key(k)
                seq.append(k)
            elif r < 0.8:
                c, rw = rng.randrange(12, 190), rng.randrange(6, 55)
                kind = rng.choice(["down", "drag", "drag", "up", "scrollup", "scrolldown"])
                sess.p.write(procs.mouse(kind, c, rw))
                seq.append(f"{kind}@{c},{rw}")
            else:
                sess.p.pump(0.05)
            sess.p.pump(0.02)
        rows2 = wait_rows(sess, sim["len"], sentinel=SENTINELS[0])
        col.count("view_control_sequences")
        if rows2 is None:
            if not sess.p.alive():
                col.add("C17", f"C17|terminated_before_quit|{sess.panic_location()}", "radar died during view controls", dict(inp, view=seq))
                col.add("C18", f"C18|radar_died_while_showing_data|{sess.panic_location()}", "radar terminated during a data session: nothing is shown any more", inp)
                return
            if sess.widget_missing("F3", lambda: sess.airplanes_rows() is not None):
                col.add("C18", "C18|airplanes_tab_not_drawn", "the Airplanes tab is selected, the frame of the UI is on screen, but the table of aircraft is not drawn", inp)
                return
            raise Inconclusive("Airplanes table not on screen after view controls")
        if ok:
            rows_equal(col, rows2, sim, "", dict(inp, view_controls=seq), "after_view_controls")
        # data decoded while the view is panned / zoomed is still computed from the receiver's position
        sess.key("F1")
        for k in ("Up", "Left", "-"):
            sess.key(k)
            seq.append(k)
            sess.p.pump(0.05)
        sess.srv.release("batch2")
        end = time.monotonic() + 40
        while time.monotonic() < end and not sess.srv.marked("feed2_done"):
            sess.p.pump(0.1)
        rows3 = wait_rows(sess, sim2["len"], sentinel=SENTINELS[1])
        col.count("rows_compared", len(sim2["rows"]))
        if rows3 is None:
            if sess.widget_missing("F3", lambda: sess.airplanes_rows() is not None):
                col.add("C18", "C18|airplanes_tab_not_drawn", "the Airplanes tab is selected, the frame of the UI is on screen, but the table of aircraft is not drawn", inp)
                return
            raise Inconclusive("Airplanes table not on screen after the second batch")
        if ok:
            rows_equal(col, rows3, sim2, "", dict(inp, view_controls=seq, lines2=[l.decode() for l in lines2]), "data_decoded_while_view_is_panned")
        # reset: the view is centred on the receiver again
        sess.key("F1")
        sess.p.pump(0.1)
        sess.key("Enter")
        sess.settle(0.5)
        title = next((l for l in sess.p.screen.text()[:3] if "rsadsb/radar" in l), "")
        m = re.search(r"\((-?\d+\.\d+),(-?\d+\.\d+)\)\s*(\(CUSTOM\))?", title)
        col.count("reset_title_checks")
        if not m:
            col.inconc("title bar not found after reset")
        elif m.group(3) or abs(float(m.group(1)) - lat) > 0.0006 or abs(float(m.group(2)) - lon) > 0.0006:
            col.add("C18", "C18|reset_does_not_return_to_receiver", f"after view controls {seq[-8:]} and reset the title shows {m.group(0)!r}; the receiver is at ({lat:.3f},{lon:.3f})", dict(inp, view_controls=seq))
        # the window changes its size (smaller, then larger than at the start): the table is redrawn
        # with the same data and the title with the same count
        for (nr, nc) in ((50, 180), (64, 210)):
            sess.key("F3")
            sess.p.pump(0.2)
            sess.p.resize(nr, nc)
            sess.settle(0.5, 6.0)
            rows4 = sess.airplanes_rows()
            col.count("resize_checks")
            if rows4 is None:
                sess.p.pump(1.0)
                rows4 = sess.airplanes_rows()
            if rows4 is None:
                if sess.p.alive() and sess.ui_present():
                    col.add("C18", "C18|airplanes_tab_not_drawn|after_resize", f"after the window was resized to {nr}x{nc} the frame of the UI is on screen but the table of aircraft is not (no key was pressed)", dict(inp, resized_to=[nr, nc]))
                    return
                if sess.p.alive():
                    col.add("C18", "C18|screen_not_redrawn_after_resize", f"after the window was resized to {nr}x{nc} nothing of the UI is on screen", dict(inp, resized_to=[nr, nc]))
                    return
                raise Inconclusive("radar gone")
            col.count("rows_compared", len(sim2["rows"]))
            if ok and not rows_equal(col, rows4, sim2, "", dict(inp, resized_to=[nr, nc]), "after_resize"):
                break
            tc = sess.tab_title_count()
            if tc != sim2["len"]:
                col.add("C18", "C18|tab_title_count|after_resize", f"after the resize to {nr}x{nc} the tab title says {tc} aircraft, the tracker holds {sim2['len']}", dict(inp, resized_to=[nr, nc]))
                break
    except Inconclusive:
        # a session that cannot be completed because radar is gone is a finding, not a shrug
        if sess.p.alive():
            raise
        col.add("C17", f"C17|terminated_before_quit|{sess.panic_location()}", "radar died during a C18 session", inp)
        col.add("C18", f"C18|radar_died_while_showing_data|{sess.panic_location()}", "radar terminated during a session: nothing is shown any more", inp)
    finally:
        sess.close()


def long_count_session(col, binpath, vmon, rng, tag, scratch, n_msgs):
    """One aircraft heard n_msgs times (radar handles ~100 lines/s): the Msgs column shows the exact
    count however many digits it needs; a second, quiet aircraft keeps its own count."""
    lat, lon = 52.0, 4.0
    a, b = 0x3D1000 + rng.randrange(4096), 0x3D3000 + rng.randrange(4096)
    la, lo = enc.destination(lat, lon, 70.0, 40.0)
    recs = [enc.long_frame(17, 5, a, enc.me_ident(4, 0, "BUSYBEE")), enc.long_frame(17, 5, a, enc.me_airpos(11, 30000, la, lo, False)), enc.long_frame(17, 5, a, enc.me_airpos(11, 30000, la, lo, True)),
            enc.long_frame(17, 5, b, enc.me_ident(4, 0, "QUIET1"))]
    base = rng.randrange(1 << 30)
    for k in range(n_msgs - 3):
        recs.append(enc.long_frame(17, 5, a, enc.me_unique(rng.choice([0, 23, 25, 27]), base + k)))
    lines = [enc.line(r) for r in recs] + [sentinel_line(0)]
    sim = feedsim(vmon, lines, lat, lon, scratch, False)
    plan = [("send", b"".join(lines)), ("mark", "feed_done"), ("sleep", 120 + n_msgs / 50)]
    opts = ["--filter-time", "100000"]
    sess = session.RadarSession(binpath, plan, lat=lat, lon=lon, opts=opts, rows=60, cols=200, scratch=scratch)
    inp = {"receiver": [lat, lon], "options": opts, "what": f"{n_msgs} frames from {a:06x}, 1 from {b:06x}, then the sentinel", "first_lines": [l.decode() for l in lines[:6]], "tag": tag}
    try:
        sess.wait_connected()
        rows = wait_rows(sess, sim["len"], cap=60.0 + n_msgs / 40, sentinel=SENTINELS[0])
        col.count("long_count_sessions")
        col.count("rows_compared", len(sim["rows"]))
        col.cls(f"long_count|digits={len(str(n_msgs))}")
        if rows is None:
            if not sess.p.alive():
                col.add("C17", f"C17|terminated_before_quit|{sess.panic_location()}", "radar died during a C18 session", inp)
                col.add("C18", f"C18|radar_died_while_showing_data|{sess.panic_location()}", "radar terminated during a data session: nothing is shown any more", inp)
                return
            if sess.widget_missing("F3", lambda: sess.airplanes_rows() is not None):
                col.add("C18", "C18|airplanes_tab_not_drawn", "the Airplanes tab is selected, the frame of the UI is on screen, but the table of aircraft is not drawn", inp)
                return
            raise Inconclusive("Airplanes table not on screen")
        if not any(r["icao"] == "%06x" % SENTINELS[0] for r in rows):
            raise Inconclusive(f"the sentinel behind {n_msgs} lines did not show up in time")
        rows_equal(col, rows, sim, "", inp, "long_session")
    except Inconclusive:
        # a session that cannot be completed because radar is gone is a finding, not a shrug
        if sess.p.alive():
            raise
        col.add("C17", f"C17|terminated_before_quit|{sess.panic_location()}", "radar died during a C18 session", inp)
        col.add("C18", f"C18|radar_died_while_showing_data|{sess.panic_location()}", "radar terminated during a session: nothing is shown any more", inp)
    finally:
        sess.close()


def crowd_session(col, binpath, vmon, rng, tag, scratch):
    """More aircraft than the table has rows: the rows are collected while the selection is moved
    down through the whole list (the table scrolls with it); every aircraft must appear with exactly
    the tracker's data, and nothing else may appear."""
    lat, lon = rng.choice([(52.0, 4.0), (-33.9, 151.2), (35.0, 179.5)])
    n = rng.choice([70, 95, 130])
    lines = traffic(rng, n, lat, lon) + [sentinel_line(0)]
    sim = feedsim(vmon, lines, lat, lon, scratch, False)
    plan = [("send", b"".join(lines)), ("mark", "feed_done"), ("sleep", 240)]
    opts = ["--filter-time", "100000"]
    sess = session.RadarSession(binpath, plan, lat=lat, lon=lon, opts=opts, rows=60, cols=200, scratch=scratch)
    inp = {"receiver": [lat, lon], "options": opts, "aircraft": sim["len"], "lines": [l.decode() for l in lines], "tag": tag}
    try:
        sess.wait_connected()
        sess.key("F3")
        end = time.monotonic() + 60 + len(lines) / 40
        while time.monotonic() < end and sess.tab_title_count() != sim["len"]:
            sess.p.pump(0.2)
            if not sess.p.alive():
                raise Inconclusive("radar gone")
        sess.settle(0.5, 5.0)
        col.count("crowd_sessions")
        col.cls(f"crowd|n={n}")
        tc = sess.tab_title_count()
        if tc != sim["len"]:
            col.add("C18", "C18|tab_title_count|crowd", f"tab title says {tc} aircraft, the tracker holds {sim['len']}", inp)
            return
        seen = {}
        first = sess.airplanes_rows()
        if first is None:
            if sess.widget_missing("F3", lambda: sess.airplanes_rows() is not None):
                col.add("C18", "C18|airplanes_tab_not_drawn", "the Airplanes tab is selected, the frame of the UI is on screen, but the table of aircraft is not drawn", inp)
                return
            raise Inconclusive("Airplanes table not on screen")
        for step in range(sim["len"] + 3):
            rows = sess.airplanes_rows()
            if rows is None:
                if not sess.p.alive():
                    raise Inconclusive("radar gone")
                raise Inconclusive("Airplanes table lost while scrolling")
            for r in rows:
                seen.setdefault(r["icao"], []).append(r)
            sess.key("Down")
            sess.p.settle(0.06, 1.5)
        col.count("rows_compared", len(sim["rows"]))
        col.count("scroll_steps", sim["len"] + 3)
        want = {r["icao"]: r for r in sim["rows"]}
        bad = []
        if set(seen) != set(want):
            bad.append(f"never shown while scrolling through the list: {sorted(set(want) - set(seen))[:6]}; shown but not tracked: {sorted(set(seen) - set(want))[:6]}")
        for k, w in want.items():
            for obs in seen.get(k, []):
                diff = [f for f in ["callsign", "lat", "lon", "heading", "alt", "fpm", "speed", "dist", "msgs"] if obs[f] != w[f]]
                if diff:
                    bad.append(f"{k}.{diff[0]}: screen {obs[diff[0]]!r}, tracker {w[diff[0]]!r}")
                    break
        if bad:
            field = bad[0].split(":")[0].split(".")[-1] if "." in bad[0].split(":")[0] else "set"
            col.add("C18", f"C18|airplanes_tab_differs_from_tracker|crowd|{field}", "; ".join(bad[:6]), inp)
    except Inconclusive:
        if sess.p.alive():
            raise
        col.add("C17", f"C17|terminated_before_quit|{sess.panic_location()}", "radar died during a C18 session", inp)
        col.add("C18", f"C18|radar_died_while_showing_data|{sess.panic_location()}", "radar terminated during a session: nothing is shown any more", inp)
    finally:
        sess.close()


def gpsd_session(col, binpath, vmon, rng, tag, scratch):
    """--gpsd: the receiver position comes from gpsd (a stand-in on its own loopback address) and
    moves once; table, title and map must follow the reported fixes, not the command-line position."""
    idx = int(tag.split("#")[1])
    p1 = rng.choice([(50.4, 8.9), (-33.2, 151.0), (10.05, -60.3)])
    # the second fix shares one coordinate with the first (a receiver moving due east or due north)
    p2 = (p1[0], p1[1] + 0.6) if idx % 2 == 0 else (p1[0] + 0.3, p1[1])
    p0 = (round(p1[0] - 0.3, 3), round(p1[1] - 0.7, 3))
    ip = "127.%d.%d.%d" % (rng.randrange(2, 250), rng.randrange(250), rng.randrange(1, 250))
    g = procs.FakeGpsd(lat=p1[0], lon=p1[1], ip=ip, modes=("periodic",), drift=0.0)
    if not g.ok:
        raise Inconclusive("no loopback address for the gpsd stand-in")
    g.start()
    lines1 = traffic(rng, 6, p1[0], p1[1], max_km=120) + [sentinel_line(0)]
    d = 30.0
    north = enc.destination(p2[0], p2[1], 0, d)
    east = enc.destination(p2[0], p2[1], 90, d)
    lines2 = []
    for addr, (la, lo) in ((0x71A001, north), (0x71A002, east)):
        lines2.append(enc.line(enc.long_frame(17, 5, addr, enc.me_airpos(11, 30000, la, lo, False))))
        lines2.append(enc.line(enc.long_frame(17, 5, addr, enc.me_airpos(11, 30000, la, lo, True))))
    lines2 += lines1[: len(lines1) // 2]
    lines2.append(sentinel_line(1))
    sim1 = feedsim(vmon, lines1, p1[0], p1[1], scratch)
    sim2 = feedsim(vmon, lines1 + [("#R %r %r\n" % p2).encode()] + lines2, p1[0], p1[1], scratch)
    plan = [("wait_for", "b1"), ("send", b"".join(lines1)), ("mark", "feed_done"), ("wait_for", "b2"), ("send", b"".join(lines2)), ("mark", "feed2_done"), ("sleep", 90)]
    opts = ["--filter-time", "100000", "--gpsd", "--gpsd-ip", ip, "--disable-heading", "--disable-icao", "--disable-track"]
    sess = session.RadarSession(binpath, plan, lat=p0[0], lon=p0[1], opts=opts, rows=60, cols=200, scratch=scratch)
    inp = {"command_line_position": list(p0), "first_fix": list(p1), "second_fix": list(p2), "options": opts, "tag": tag}

    def title_pos():
        t = next((l for l in sess.p.screen.text()[:3] if "rsadsb/radar" in l), "")
        m = re.search(r"\((-?\d+\.\d+),(-?\d+\.\d+)\)", t)
        return (float(m.group(1)), float(m.group(2))) if m else None

    def wait_title(want, cap):
        end = time.monotonic() + cap
        while time.monotonic() < end:
            sess.p.pump(0.2)
            t = title_pos()
            if t is not None and abs(t[0] - want[0]) < 0.0011 and abs(t[1] - want[1]) < 0.0011:
                return True
            if not sess.p.alive():
                return False
        return False
    try:
        sess.wait_connected()
        col.count("gpsd_sessions")
        col.cls("gpsd|" + ("east" if idx % 2 == 0 else "north"))
        if not wait_title(p1, 15):
            if g.connections == 0:
                raise Inconclusive("radar did not connect to the gpsd stand-in")
            col.add("C18", "C18|gpsd_fix_not_adopted|first", f"gpsd reports {p1} for 15 s; the title still shows {title_pos()} (command line: {p0})", inp)
            return
        sess.srv.release("b1")
        rows = wait_rows(sess, sim1["len"], sentinel=SENTINELS[0])
        if rows is None:
            raise Inconclusive("Airplanes table not on screen")
        col.count("rows_compared", len(sim1["rows"]))
        ok = rows_equal(col, rows, sim1, "", inp, "gpsd_first_fix")
        # every other session the operator has panned the map when the receiver moves: the view is
        # the operator's, the receiver position (what distances are measured from) is still gpsd's
        custom = idx % 2 == 1
        if custom:
            sess.key("F1")
            sess.p.pump(0.3)
            for k in ("Up", "Up", "Left"):
                sess.key(k)
                sess.p.pump(0.1)
            sess.key("F3")
            sess.settle(0.4)
            inp["custom_view_when_the_second_fix_arrives"] = True
        g.lat, g.lon = p2
        if custom:
            sess.p.pump(4.0)  # the title shows the operator's centre now; reports come every 0.2 s
        elif not wait_title(p2, 15):
            col.add("C18", "C18|gpsd_fix_not_adopted|second", f"gpsd reports {p2} for 15 s (before: {p1}); the title still shows {title_pos()}", inp)
            return
        sess.srv.release("b2")
        rows = wait_rows(sess, sim2["len"], sentinel=SENTINELS[1])
        if rows is None:
            raise Inconclusive("Airplanes table not on screen")
        col.count("rows_compared", len(sim2["rows"]))
        if custom:
            # reset: the title must show the second fix (then it had arrived, and the rows count)
            sess.key("F1")
            sess.p.pump(0.3)
            sess.key("Enter")
            if not wait_title(p2, 15):
                col.add("C18", "C18|gpsd_fix_not_adopted|second", f"gpsd reports {p2} for 20 s (before: {p1}); after a reset of the view the title still shows {title_pos()}", inp)
                return
            sess.key("F3")
            sess.settle(0.4)
        if ok:
            rows_equal(col, rows, sim2, "", inp, "gpsd_second_fix" + ("|custom_view" if custom else ""))
        # the map is centred on the fix: the aircraft due north / east of it sit on the axes
        sess.key("F1")
        sess.settle(0.6)
        cells = sess.p.screen.cells
        txt = sess.p.screen.text()
        top = next((i for i, l in enumerate(txt) if "┌Map" in l), None)
        if top is None:
            if sess.widget_missing("F1", lambda: any("┌Map" in l for l in sess.p.screen.text())):
                col.add("C18", "C18|map_not_drawn", "the Map tab is selected, the frame of the UI is on screen, but no map is drawn", inp)
                return
            raise Inconclusive("Map tab not on screen")
        bottom = next((i for i in range(top + 1, len(txt)) if "└" in txt[i]), len(txt) - 1)
        left, right = txt[top].index("┌"), txt[top].rindex("┐")
        row_scores = {r: sum(1 for c in range(left + 1, right) if BRAILLE(cells[r][c][0])) for r in range(top + 1, bottom)}
        col_scores = {c: sum(1 for r in range(top + 1, bottom) if BRAILLE(cells[r][c][0])) for c in range(left + 1, right)}
        cr, cc = max(row_scores, key=row_scores.get), max(col_scores, key=col_scores.get)
        blue = [(r - cr, c - cc) for r in range(top + 1, bottom) for c in range(left + 1, right) if cells[r][c][1] == 4 and BRAILLE(cells[r][c][0])]
        on_north = [b for b in blue if abs(b[1]) <= 1 and b[0] < -1]
        on_east = [b for b in blue if abs(b[0]) <= 1 and b[1] > 3]
        col.count("gpsd_map_checks")
        if not on_north or not on_east:
            col.add("C18", "C18|map_not_centred_on_gpsd_fix", f"aircraft {d} km due north and due east of the current fix {p2} are not on the axes of the map: blue dots at (row, column) offsets {sorted(blue)[:12]}", inp)
        # gpsd falls silent (connected, no more reports); view controls and reset must not bring the
        # command-line position back
        g.silent = True
        sess.p.pump(0.6)
        for k in ("-", "Up", "Left", "Enter"):
            sess.key(k)
            sess.p.pump(0.1)
        sess.settle(0.5)
        sess.p.pump(1.0)
        t = title_pos()
        col.count("gpsd_silent_reset_checks")
        if t is not None and (abs(t[0] - p2[0]) > 0.0011 or abs(t[1] - p2[1]) > 0.0011):
            col.add("C18", "C18|gpsd_fix_lost_after_reset", f"gpsd fell silent after reporting {p2}; after zoom, pan and reset the title shows {t} (command line: {p0})", inp)
    except Inconclusive:
        if sess.p.alive():
            raise
        col.add("C17", f"C17|terminated_before_quit|{sess.panic_location()}", "radar died during a C18 session", inp)
        col.add("C18", f"C18|radar_died_while_showing_data|{sess.panic_location()}", "radar terminated during a session: nothing is shown any more", inp)
    finally:
        g.stop = True
        sess.close()


def crowd_expiry_session(col, binpath, rng, tag, scratch):
    """More aircraft than rows, the selection at the bottom of the list, then most of them expire:
    the few that are still heard must all be shown."""
    lat, lon = 52.0, 4.0
    FT = 4
    n, keep = 30, 5
    addrs = [0xA00001 + k for k in range(n)]
    first = []
    for k, a in enumerate(addrs):
        la, lo = enc.destination(lat, lon, 12.0 * k, 20.0 + k)
        first.append(enc.line(enc.long_frame(17, 5, a, enc.me_ident(4, 0, "EXP%03d" % k))))
        first.append(enc.line(enc.long_frame(17, 5, a, enc.me_airpos(11, 30000, la, lo, False))))
        first.append(enc.line(enc.long_frame(17, 5, a, enc.me_airpos(11, 30000, la, lo, True))))
    alive = lambda t: b"".join(enc.line(enc.long_frame(17, 5, a, enc.me_unique(0, 7000 + 10 * t + j))) for j, a in enumerate(addrs[:keep]))
    plan = [("send", b"".join(first)), ("mark", "feed_done"), ("wait_for", "keep")]
    for t in range(40):
        plan += [("send", alive(t)), ("sleep", 0.5)]
    opts = ["--filter-time", str(FT)]
    sess = session.RadarSession(binpath, plan, lat=lat, lon=lon, opts=opts, rows=20, cols=120, scratch=scratch)
    inp = {"scenario": "30 aircraft on a 20-row terminal, selection moved to the last row, 25 expire", "options": opts, "tag": tag}
    try:
        sess.wait_connected()
        sess.key("F3")
        end = time.monotonic() + 40
        while time.monotonic() < end and sess.tab_title_count() != n:
            sess.p.pump(0.1)
            if not sess.p.alive():
                raise Inconclusive("radar gone")
        if sess.tab_title_count() != n:
            raise Inconclusive("not all aircraft shown before the threshold")
        sess.srv.release("keep")
        for _ in range(n + 4):
            sess.key("Down")
            sess.p.pump(0.01)
        end = time.monotonic() + FT + 25
        while time.monotonic() < end and sess.tab_title_count() != keep:
            sess.p.pump(0.2)
            if not sess.p.alive():
                raise Inconclusive("radar gone")
        col.count("crowd_expiry_sessions")
        col.cls("crowd|expiry")
        if sess.tab_title_count() != keep:
            raise Inconclusive("the silent aircraft did not expire in time")
        sess.p.settle(0.5, 4.0)
        rows = sess.airplanes_rows()
        if rows is None:
            raise Inconclusive("Airplanes table not on screen")
        got = sorted(r["icao"] for r in rows)
        want = sorted("%06x" % a for a in addrs[:keep])
        col.count("rows_compared", keep)
        if got != want:
            col.add("C18", "C18|airplanes_tab_differs_from_tracker|crowd_expiry|set", f"the title counts {keep} aircraft (25 of 30 expired while the selection was on the last row); rows shown: {got}, still heard: {want}", inp)
    except Inconclusive:
        if sess.p.alive():
            raise
        col.add("C17", f"C17|terminated_before_quit|{sess.panic_location()}", "radar died during a C18 session", inp)
        col.add("C18", f"C18|radar_died_while_showing_data|{sess.panic_location()}", "radar terminated during a session: nothing is shown any more", inp)
    finally:
        sess.close()


def reconnect_session(col, binpath, vmon, rng, tag, scratch):
    """--retry-tcp: the server goes away and comes back. What is on screen after the reconnect is
    still the tracker's data: first the same rows as before (nothing new has arrived), then the
    rows of both connections together."""
    lat, lon = rng.choice([(52.0, 4.0), (-33.9, 151.2), (10.0, -60.0)])
    lines1 = traffic(rng, rng.choice([4, 9]), lat, lon) + [sentinel_line(0)]
    lines2 = traffic(rng, rng.choice([1, 3]), lat, lon) + lines1[: len(lines1) // 3] + [sentinel_line(1)]
    sim1 = feedsim(vmon, lines1, lat, lon, scratch)
    sim2 = feedsim(vmon, lines1 + lines2, lat, lon, scratch)
    away = rng.choice([0.2, 1.5, 4.0])
    plan = [("send", b"".join(lines1)), ("mark", "feed_done"), ("wait_for", "drop"), ("close",), ("sleep", away), ("accept", 30.0), ("mark", "back"), ("wait_for", "b2"), ("send", b"".join(lines2)), ("mark", "feed2_done"), ("sleep", 90)]
    opts = ["--filter-time", "100000", "--retry-tcp"]
    where = rng.choice(["F3", "F1", "F4"])  # the tab that is open while the server is away
    sess = session.RadarSession(binpath, plan, lat=lat, lon=lon, opts=opts, rows=60, cols=200, scratch=scratch)
    inp = {"scenario": "reconnect", "receiver": [lat, lon], "options": opts, "server_away_s": away, "tab_during_outage": where, "lines": [l.decode() for l in lines1], "tag": tag}
    try:
        sess.wait_connected()
        rows = wait_rows(sess, sim1["len"], sentinel=SENTINELS[0])
        if rows is None:
            raise Inconclusive("Airplanes table not on screen")
        col.count("reconnect_sessions")
        col.cls("reconnect|" + where)
        col.count("rows_compared", len(sim1["rows"]))
        ok = rows_equal(col, rows, sim1, "", inp, "before_disconnect")
        sess.key(where)
        sess.p.pump(0.3)
        sess.srv.release("drop")
        end = time.monotonic() + 45
        while time.monotonic() < end and not sess.srv.marked("back"):
            sess.p.pump(0.1)
            if not sess.p.alive():
                raise Inconclusive("radar gone")
        if not sess.srv.marked("back"):
            raise Inconclusive("radar did not reconnect")
        sess.p.pump(1.0)
        # nothing new has been sent: the table is the one from before
        rows = None
        for _ in range(3):
            sess.key("F3")
            sess.settle(0.4, 5.0)
            rows = sess.airplanes_rows()
            if rows is not None:
                break
        if rows is None:
            if sess.p.alive() and sess.ui_present():
                col.add("C18", "C18|airplanes_tab_not_drawn|after_reconnect", f"after the reconnect the Airplanes tab is selected and the frame of the UI is on screen, but the table of the {sim1['len']} tracked aircraft is not (its header line is missing)", inp)
                return
            if sess.p.alive():
                col.add("C18", "C18|screen_not_restored_after_reconnect", "after the reconnect nothing of the UI is on screen although radar is running and keys were pressed", inp)
                return
            raise Inconclusive("radar gone")
        col.count("rows_compared", len(sim1["rows"]))
        if ok:
            ok = rows_equal(col, rows, sim1, "", inp, "after_reconnect_before_new_data")
        tc = sess.tab_title_count()
        if tc != sim1["len"]:
            col.add("C18", "C18|tab_title_count|after_reconnect", f"tab title says {tc} aircraft after the reconnect, the tracker holds {sim1['len']}", inp)
        sess.srv.release("b2")
        rows = wait_rows(sess, sim2["len"], sentinel=SENTINELS[1])
        if rows is None:
            raise Inconclusive("Airplanes table not on screen")
        col.count("rows_compared", len(sim2["rows"]))
        if ok:
            rows_equal(col, rows, sim2, "", inp, "after_reconnect_with_new_data")
        sess.key("F4")
        sess.settle(0.4, 5.0)
        tot = None
        for l in sess.p.screen.text():
            m = re.search(r"Total Airplanes\s+All Time\s+(\d+)", l)
            if m:
                tot = int(m.group(1))
        col.count("stats_compared")
        if tot is not None and tot != sim2["total_added"]:
            col.add("C18", "C18|stats_total_airplanes|reconnect", f"Stats shows Total Airplanes {tot}; aircraft were newly added {sim2['total_added']} times over both connections", inp)
    except Inconclusive:
        if sess.p.alive():
            raise
        col.add("C17", f"C17|terminated_before_quit|{sess.panic_location()}", "radar died during a C18 session", inp)
        col.add("C18", f"C18|radar_died_while_showing_data|{sess.panic_location()}", "radar terminated during a session: nothing is shown any more", inp)
    finally:
        sess.close()


def label_session(col, binpath, rng, tag, scratch):
    """What is drawn next to an aircraft is placed by the same transformation as the aircraft: every
    call-sign label on the map sits right above the dot of its aircraft, an aircraft that is not on
    the map has no label on it - at the start, zoomed in, panned and after reset."""
    idx = int(tag.split("#")[1])
    lat, lon = [(52.0, 4.0), (-33.9, 151.2), (47.0, 8.0), (10.0, -60.0)][idx % 4]
    craft = [("NEARA", 45, 60), ("NEARB", 135, 60), ("NEARC", 225, 60), ("NEARD", 315, 60), ("MIDA", 20, 110), ("MIDB", 200, 110),
             ("FARN", 0, 300), ("FARS", 180, 300), ("FARE", 90, 450), ("FARW", 270, 450), ("FARX", 10, 250), ("FARY", 170, 380)]
    lines = []
    for k, (cs, brg, dist) in enumerate(craft):
        addr = 0x730000 + k
        la, lo = enc.destination(lat, lon, brg, dist)
        lines.append(enc.line(enc.long_frame(17, 5, addr, enc.me_ident(4, 0, cs))))
        lines.append(enc.line(enc.long_frame(17, 5, addr, enc.me_airpos(11, 30000, la, lo, False))))
        lines.append(enc.line(enc.long_frame(17, 5, addr, enc.me_airpos(11, 30000, la, lo, True))))
    plan = [("send", b"".join(lines)), ("mark", "feed_done"), ("sleep", 90)]
    opts = ["--disable-lat-long", "--disable-track", "--filter-time", "100000"] + (["--disable-heading"] if idx % 2 == 0 else [])
    t_rows, t_cols = [(60, 200), (62, 151), (60, 200), (70, 120)][idx % 4]
    sess = session.RadarSession(binpath, plan, lat=lat, lon=lon, opts=opts, rows=t_rows, cols=t_cols, scratch=scratch)
    inp = {"scenario": "labels", "receiver": [lat, lon], "terminal": [t_rows, t_cols], "options": opts, "aircraft": [list(c) for c in craft], "tag": tag}
    names = [c[0] for c in craft]
    try:
        sess.wait_connected()
        rows = wait_rows(sess, len(craft))
        if rows is None or len([r for r in rows if r["lat"]]) < len(craft):
            raise Inconclusive("not all aircraft have a position")
        sess.key("F1")
        sess.settle(0.6)
        txt = sess.p.screen.text()
        top = next((i for i, l in enumerate(txt) if "┌Map" in l), None)
        if top is None:
            raise Inconclusive("Map tab not on screen")
        bottom = next((i for i in range(top + 1, len(txt)) if "└" in txt[i]), len(txt) - 1)
        left, right = txt[top].index("┌"), txt[top].rindex("┐")
        col.count("label_sessions")
        col.cls("map|labels")

        def examine(stage):
            cs = sess.p.screen.cells
            dots = [(r, c) for r in range(top + 1, bottom) for c in range(left + 1, right) if cs[r][c][1] == 4 and BRAILLE(cs[r][c][0])]
            labels = {}
            for r in range(top + 1, bottom):
                line = "".join(cs[r][c][0] for c in range(left + 1, right))
                for nm in names:
                    j = line.find(nm)
                    if j >= 0:
                        labels[nm] = (r, left + 1 + j)
            col.count("labels_read", len(labels))
            col.count("label_stages")
            orphan = []
            for nm, (r, c) in labels.items():
                below = [(dr, dc) for (dr, dc) in dots if 0 <= dr - r <= 3 and abs(dc - c) <= 1]
                if not below and r + 3 < bottom:
                    orphan.append(f"{nm} at row {r - top}, column {c - left}")
            bare = []
            for (dr, dc) in dots:
                if dr - 3 <= top + 1 or dc + 8 >= right:
                    continue
                if not any(0 <= dr - r <= 3 and abs(dc - c) <= 1 for (r, c) in labels.values()):
                    bare.append(f"dot at row {dr - top}, column {dc - left}")
            if orphan:
                col.add("C18", f"C18|map_label_without_aircraft|{stage}", f"{stage}: call-sign labels on the map with no aircraft dot in the three rows below them (the canvas has {bottom - top - 1} rows): {orphan[:5]}; dots at {[(r - top, c - left) for r, c in dots][:12]}", dict(inp, stage=stage))
            if bare and not orphan:
                col.add("C18", f"C18|map_aircraft_without_label|{stage}", f"{stage}: aircraft dots with room above them but no call-sign label there: {bare[:5]}; labels at { {k: (v[0] - top, v[1] - left) for k, v in labels.items()} }", dict(inp, stage=stage))
            return len(labels), len(dots)

        n_lab, n_dot = examine("start")
        if n_lab < 4 or n_dot < 4:
            raise Inconclusive(f"only {n_lab} labels / {n_dot} dots on the first picture")
        for stage, keys in (("zoom_in_2", ["+", "+"]), ("zoom_in_4", ["+", "+"]), ("pan_up", ["Up"] * 12), ("pan_left", ["Left"] * 6), ("zoom_out", ["-"] * 3), ("reset", ["Enter"])):
            for k in keys:
                sess.key(k)
                sess.p.pump(0.03)
            sess.settle(0.5)
            if not sess.p.alive():
                raise Inconclusive("radar gone")
            examine(stage)
    except Inconclusive:
        if sess.p.alive():
            raise
        col.add("C17", f"C17|terminated_before_quit|{sess.panic_location()}", "radar died during a C18 session", inp)
        col.add("C18", f"C18|radar_died_while_showing_data|{sess.panic_location()}", "radar terminated during a session: nothing is shown any more", inp)
    finally:
        sess.close()


def stats_relay_session(col, binpath, rng, tag, scratch):
    """One aircraft after the other, each first heard just as its predecessor times out
    (--filter-time 1, gaps of 1 s + 3..60 ms): additions and removals fall into the same turns of the
    client's loop. Every address is new, so the total is the number of addresses whatever the timing."""
    n = rng.randint(10, 14)
    base = 0x700000 + rng.randrange(0x1000)
    plan = [("wait_for", "go")]
    gaps = []
    for i in range(n):
        plan.append(("send", enc.line(enc.long_frame(17, 5, base + i, enc.me_ident(4, 0, "R%03d" % i)))))
        g = 1.0 + rng.choice([0.003, 0.006, 0.010, 0.015, 0.020, 0.030, 0.045, 0.060])
        gaps.append(g)
        plan.append(("sleep", g))
    plan += [("mark", "feed_done"), ("sleep", 60)]
    sess = session.RadarSession(binpath, plan, lat=52.0, lon=4.0, opts=["--filter-time", "1"], rows=40, cols=150, scratch=scratch)
    inp = {"scenario": "relay", "aircraft": n, "gaps_s": gaps, "filter_time": 1}
    try:
        sess.wait_connected()
        sess.key("F4")
        sess.settle(0.3, 5.0)
        sess.srv.release("go")
        end = time.monotonic() + 2 * n + 40
        while time.monotonic() < end and not sess.srv.marked("feed_done"):
            sess.p.pump(0.1)
            if not sess.p.alive():
                raise Inconclusive("radar gone")
        sess.p.pump(1.0)
        tot = None
        for l in sess.p.screen.text():
            m = re.search(r"Total Airplanes\s+All Time\s+(\d+)", l)
            if m:
                tot = int(m.group(1))
        col.count("relay_sessions")
        col.cls("stats|relay")
        if tot is None:
            if sess.widget_missing("F4", lambda: any("Total Airplanes" in l for l in sess.p.screen.text())):
                col.add("C18", "C18|stats_tab_not_drawn", "the Stats tab is selected, the frame of the UI is on screen, but the statistics are not drawn", inp)
                return
            raise Inconclusive("Stats rows not found")
        col.count("stats_compared")
        if tot != n:
            col.add("C18", "C18|stats_total_airplanes|relay", f"Total Airplanes {tot}; {n} aircraft with {n} different addresses were newly added, one about every second with --filter-time 1", inp)
    except Inconclusive:
        if sess.p.alive():
            raise
        col.add("C17", f"C17|terminated_before_quit|{sess.p.alive() or sess.panic_location()}", "radar died during a C18 session", inp)
        col.add("C18", f"C18|radar_died_while_showing_data|{sess.panic_location()}", "radar terminated during a session: nothing is shown any more", inp)
    finally:
        sess.close()


def stats_expiry_session(col, binpath, rng, tag, scratch):
    """Aircraft expire and come back: Total counts every (re-)add, Most the largest simultaneous count.
    Event driven (title counts), so a slow machine only makes it slower."""
    lat, lon = 52.0, 4.0
    k1, k2 = rng.randint(1, 9), rng.randint(1, 9)
    FT = 4
    def group(base, k):
        return [enc.line(enc.long_frame(17, 5, base + i, enc.me_ident(4, 0, "S%03d" % i))) for i in range(k)]
    a = group(0x500000, k1)
    overlap = rng.randint(0, min(k1, k2))
    b = group(0x500000, overlap) + group(0x600000, k2 - overlap)
    plan = [("send", b"".join(a)), ("mark", "a_sent"), ("wait_for", "send_b"), ("send", b"".join(b)), ("mark", "feed_done")]
    for _ in range(400):  # keep group b alive well inside the filter time
        plan += [("sleep", 0.25), ("send", b"".join(b))]
    sess = session.RadarSession(binpath, plan, lat=lat, lon=lon, opts=["--filter-time", str(FT)], rows=40, cols=150, scratch=scratch)
    inp = {"scenario": "expiry", "group_a": k1, "group_b": k2, "overlap": overlap, "filter_time": FT}
    def wait_title(n, cap):
        end = time.monotonic() + cap
        while time.monotonic() < end:
            sess.p.pump(0.1)
            if sess.tab_title_count() == n:
                return True
            if not sess.p.alive():
                return False
        return False
    try:
        sess.wait_connected()
        if not wait_title(k1, 30):
            raise Inconclusive(f"group A ({k1} aircraft) never fully shown")
        if not wait_title(0, FT + 45):
            if not sess.p.alive():
                raise Inconclusive("radar gone")
            # The feed is silent and nobody touches the keyboard: the screen still has to follow the
            # tracker. A key without a function tells a stale screen from a tracker that did not expire.
            shown = sess.tab_title_count()
            sess.key("x")
            if wait_title(0, 10):
                col.count("expiry_sessions")
                col.add("C18", "C18|expired_aircraft_still_shown", f"{FT + 45} s after the last frame (--filter-time {FT}) the tab title still counted {shown} aircraft and dropped to 0 as soon as a key was pressed: the screen did not follow the tracker while the feed was silent", inp)
                return
            raise Inconclusive("group A did not expire")
        sess.srv.release("send_b")
        if not wait_title(k2, 30):
            raise Inconclusive(f"group B ({k2} aircraft) never fully shown")
        sess.key("F4")
        sess.settle(0.3, 5.0)
        txt = sess.p.screen.text()
        tot = most = None
        for l in txt:
            m = re.search(r"Total Airplanes\s+All Time\s+(\d+)", l)
            if m:
                tot = int(m.group(1))
            m = re.search(r"Most Airplanes\s+\S+\s+\S+\s+(\d+)", l)
            if m:
                most = int(m.group(1))
        tc = sess.tab_title_count()
        col.count("expiry_sessions")
        col.cls("stats|expiry")
        if tot is None:
            if sess.widget_missing("F4", lambda: any("Total Airplanes" in l for l in sess.p.screen.text())):
                col.add("C18", "C18|stats_tab_not_drawn", "the Stats tab is selected, the frame of the UI is on screen, but the statistics are not drawn", inp)
                return
            raise Inconclusive("Stats rows not found")
        if tot != k1 + k2:
            col.add("C18", "C18|stats_total_airplanes|expiry", f"Total Airplanes {tot}; {k1} aircraft were added, expired, then {k2} were added ({overlap} of them again)", inp)
        if most != max(k1, k2):
            col.add("C18", "C18|stats_most_airplanes|expiry", f"Most Airplanes {most}; largest simultaneous count was {max(k1, k2)}", inp)
        if tc != k2:
            col.add("C18", "C18|tab_title_count|expiry", f"tab title says {tc}; {k2} aircraft are tracked", inp)
    except Inconclusive:
        # a session that cannot be completed because radar is gone is a finding, not a shrug
        if sess.p.alive():
            raise
        col.add("C17", f"C17|terminated_before_quit|{sess.panic_location()}", "radar died during a C18 session", inp)
        col.add("C18", f"C18|radar_died_while_showing_data|{sess.panic_location()}", "radar terminated during a session: nothing is shown any more", inp)
    finally:
        sess.close()


MAP_RECEIVERS = [(52.0, 4.0), (51.5, -0.1), (0.0, 0.0), (-40.0, 179.9), (10.0, -60.0), (60.0, 25.0), (-33.9, 151.2), (35.0, -179.8), (85.3, 10.0), (-85.3, -60.0)]


def map_session(col, binpath, rng, tag, scratch):
    # receivers are cycled, not drawn: the prime meridian, the equator and the antimeridian are
    # where a projection seam or a sign slip shows
    lat, lon = MAP_RECEIVERS[int(tag.split("#")[1]) % len(MAP_RECEIVERS)]
    d = rng.choice([25.0, 30.0, 35.0])
    if abs(lat) > 70:
        # beyond the usual web-mercator cut-off the projection stretches fast: distances are
        # shortened so that the picture has the same size as at 50 degrees
        d *= math.cos(math.radians(lat)) / math.cos(math.radians(50.0))
    idx = int(tag.split("#")[1])
    # every third session the nearer aircraft to the east and to the west arrive at their place in
    # three steps (tracks are drawn in these sessions): the dot belongs at the newest position
    moving = idx % 3 == 2
    lines = []
    truth = {}
    MULT = {"N": (1.0, 2.0), "E": (1.0, 2.0), "S": (1.5, 3.0), "W": (1.5, 3.0)}
    for i, (name, brg) in enumerate([("N", 0), ("E", 90), ("S", 180), ("W", 270)]):
        for j, mult in enumerate(MULT[name]):
            addr = 0x700000 + i * 16 + j
            la, lo = enc.destination(lat, lon, brg, d * mult)
            truth[addr] = (name, mult)
            if moving and name in ("E", "W") and j == 0:
                step = 0.15 * d
                for k, back in enumerate((3, 2, 1)):
                    pla, plo = enc.destination(lat, lon, brg, d * mult - back * step)
                    lines.append(enc.line(enc.long_frame(17, 5, addr, enc.me_airpos(11, 30000, pla, plo, k % 2 == 1))))
                # the last report is the only one from the final place: the newest track entry is one step behind
                lines.append(enc.line(enc.long_frame(17, 5, addr, enc.me_airpos(11, 30000, la, lo, True))))
                continue
            lines.append(enc.line(enc.long_frame(17, 5, addr, enc.me_airpos(11, 30000, la, lo, False))))
            lines.append(enc.line(enc.long_frame(17, 5, addr, enc.me_airpos(11, 30000, la, lo, True))))
    # two aircraft without a position, sorting before and between the others (rows without a dot)
    lines.insert(0, enc.line(enc.long_frame(17, 5, 0x6FFFFF, enc.me_ident(4, 0, "NOPOS1"))))
    lines.insert(5, enc.line(enc.long_frame(17, 5, 0x700005, enc.me_ident(4, 0, "NOPOS2"))))
    plan = [("send", b"".join(lines)), ("mark", "feed_done"), ("sleep", 60)]
    # these aircraft never sent a velocity report, so with the heading display on (the default)
    # their dot is still the only blue thing: every other session keeps the default
    opts = ([] if moving else ["--disable-track"]) + ["--disable-icao", "--filter-time", "100000"] + (["--disable-heading"] if idx % 2 == 0 else [])
    # "anything to the north is drawn above it": also the fixed markers - four --locations at 1.25 d
    # and four --airports entries at 0.6 d, found on screen by their two-letter labels
    markers = {}
    loc_args = []
    # (labels are text cells and may cover a dot once everything is squeezed together: the sessions
    # with markers check markers and panning, the others zooming)
    with_markers = idx % 2 == 1
    csvp = os.path.join(scratch, f"airports-{tag.replace('#', '-')}.csv")
    with open(csvp, "w") as f:
        f.write("icao,iata,name,city,subd,country,elevation,lat,lon,tz\n")
        for name, brg in (("N", 0), ("E", 90), ("S", 180), ("W", 270)):
            la, lo = enc.destination(lat, lon, brg, 1.25 * d)
            loc_args.append("(%s,%.6f,%.6f)" % ("l" + name.lower(), la, lo))
            markers["l" + name.lower()] = (name, 1.25)
            la, lo = enc.destination(lat, lon, brg, 0.6 * d)
            f.write(f"Q{name},A{name},Field {name},Town,ST,US,10.0,{la:.6f},{lo:.6f},Europe/Amsterdam\n")
            markers["Q" + name] = (name, 0.6)
    if with_markers:
        opts += ["--locations"] + loc_args + ["--airports", csvp]
    else:
        markers = {}
    # the picture is a function of the canvas size, too: three terminal sizes (the wide default, a
    # smaller one, one that is taller than wide in cells)
    t_rows, t_cols = [(60, 200), (60, 200), (60, 200), (62, 151), (70, 120)][idx % 5]
    sess = session.RadarSession(binpath, plan, lat=lat, lon=lon, opts=opts, rows=t_rows, cols=t_cols, scratch=scratch)
    inp = {"receiver": [lat, lon], "d_km": d, "terminal": [t_rows, t_cols], "options": opts, "lines": [l.decode() for l in lines], "tag": tag}
    try:
        sess.wait_connected()
        rows = wait_rows(sess, 10)
        if rows is None or len([r for r in rows if r["lat"]]) < 8:
            raise Inconclusive("not all eight aircraft have a position")
        sess.key("F1")
        sess.settle(0.6)
        cells = sess.p.screen.cells
        txt = sess.p.screen.text()
        top = next((i for i, l in enumerate(txt) if "┌Map" in l), None)
        if top is None:
            if sess.widget_missing("F1", lambda: any("┌Map" in l for l in sess.p.screen.text())):
                col.add("C18", "C18|map_not_drawn", "the Map tab is selected, the frame of the UI is on screen, but no map is drawn", inp)
                return
            raise Inconclusive("Map tab not on screen")
        bottom = next((i for i in range(top + 1, len(txt)) if "└" in txt[i]), len(txt) - 1)
        left = txt[top].index("┌")
        right = txt[top].rindex("┐")
        # axes: the row / column of the canvas with the most white braille cells
        def white_braille(r, c):
            ch, fg = cells[r][c]
            return BRAILLE(ch) and fg != 4
        row_scores = {r: sum(1 for c in range(left + 1, right) if BRAILLE(cells[r][c][0])) for r in range(top + 1, bottom)}
        col_scores = {c: sum(1 for r in range(top + 1, bottom) if BRAILLE(cells[r][c][0])) for c in range(left + 1, right)}
        cr = max(row_scores, key=row_scores.get)
        cc = max(col_scores, key=col_scores.get)
        col.count("map_sessions")
        col.cls("map|geometry")
        # the receiver is at the centre of the canvas
        mid_r = (top + 1 + bottom - 1) / 2.0
        mid_c = (left + 1 + right - 1) / 2.0
        if abs(cr - mid_r) > 1.0 or abs(cc - mid_c) > 1.0:
            col.add("C18", "C18|map_receiver_not_at_centre", f"axes cross at row {cr}, column {cc}; canvas centre is ({mid_r}, {mid_c})", inp)
        blue = [(r, c) for r in range(top + 1, bottom) for c in range(left + 1, right) if cells[r][c][1] == 4 and BRAILLE(cells[r][c][0])]
        groups = {"N": [], "E": [], "S": [], "W": []}
        stray = []
        for r, c in blue:
            dr, dc = r - cr, c - cc
            if abs(dc) <= 1 and dr < 0:
                groups["N"].append(-dr)
            elif abs(dc) <= 1 and dr > 0:
                groups["S"].append(dr)
            elif abs(dr) <= 1 and dc > 0:
                groups["E"].append(dc)
            elif abs(dr) <= 1 and dc < 0:
                groups["W"].append(-dc)
            else:
                stray.append((dr, dc))
        detail = {k: sorted(v) for k, v in groups.items()}
        inp2 = dict(inp, centre=[cr, cc], offsets=detail, stray=stray[:8])
        if stray or any(len(v) != 2 for v in groups.values()):
            col.add("C18", "C18|map_direction", f"aircraft placed due N/E/S/W of the receiver (N,E at {d} and {2 * d} km; S,W at {1.5 * d} and {3 * d} km) are drawn at offsets {detail} (rows/columns from the centre), stray dots {stray[:6]}", inp2)
            return
        for k, v in groups.items():
            v.sort()
            if abs(v[1] - 2 * v[0]) > 2:
                col.add("C18", f"C18|map_not_proportional|{k}", f"{k}: offsets {v} cells for distances {MULT[k][0] * d} and {MULT[k][1] * d} km", inp2)
        # the aircraft to the south / west are 1.5 times as far away as those to the north / east:
        # a mirrored axis or a direction-dependent scale shows as a wrong ratio between opposite sides
        for a_, b_ in (("E", "W"), ("N", "S")):
            for j in (0, 1):
                want = groups[a_][j] * 1.5
                if abs(groups[b_][j] - want) > 1.5 + 0.06 * want:
                    col.add("C18", f"C18|map_opposite_sides_inconsistent|{a_}{b_}", f"{a_} at {MULT[a_][j] * d} km is {groups[a_][j]} cells from the centre, {b_} at {MULT[b_][j] * d} km is {groups[b_][j]} cells (expected about {want:.1f})", inp2)
        # one scale for both axes: the same distance east-west covers as many columns as it covers
        # rows north-south, times the canvas' columns-per-row (both axes span the same extent)
        W, H = right - left - 1, bottom - top - 1
        cols_per_km = (groups["E"][1] / (2 * d) + groups["W"][1] / (3 * d)) / 2
        rows_per_km = (groups["N"][1] / (2 * d) + groups["S"][1] / (3 * d)) / 2
        if rows_per_km > 0 and cols_per_km > 0:
            aspect = (cols_per_km / rows_per_km) / (W / H)
            tol = 0.08 + 0.5 / groups["S"][1] + 0.5 / groups["W"][1]
            col.count("aspect_checks")
            if os.environ.get("VERIF_DEBUG_ASPECT"):
                print(f"ASPECT {aspect:.3f} tol {tol:.3f} W={W} H={H} groups={groups} lat={lat}", flush=True)
            if abs(aspect - 1.0) > tol:
                col.add("C18", "C18|map_axes_scaled_differently", f"{2 * d:.0f}/{3 * d:.0f} km east/west cover {groups['E'][1]}/{groups['W'][1]} columns, north/south {groups['N'][1]}/{groups['S'][1]} rows on a canvas of {W}x{H} cells: east-west is stretched by a factor {aspect:.2f} relative to north-south", inp2)
        # fixed markers: direction and distance like the aircraft next to them
        per_d = {"N": groups["N"][0], "S": groups["S"][0] / 1.5, "E": groups["E"][0], "W": groups["W"][0] / 1.5}
        missing, misplaced = [], []
        for label, (side, mult) in markers.items():
            pos = None
            for r in range(top + 1, bottom):
                line = "".join(cells[r][c][0] for c in range(left + 1, right))
                j = line.find(label)
                if j >= 0:
                    pos = (r, left + 1 + j)
                    break
            if pos is None:
                missing.append(label)
                continue
            dr, dc = pos[0] - cr, pos[1] - cc
            want = mult * per_d[side]
            along, across = {"N": (-dr, dc), "S": (dr, dc), "E": (dc, dr), "W": (-dc, dr)}[side]
            if abs(across) > 1 or abs(along - want) > 1.5 + 0.08 * want:
                misplaced.append(f"{label}: {mult} d to the {side} is drawn {along} cells along and {across} across (expected about {want:.1f} along, 0 across)")
        col.count("marker_checks", len(markers))
        if missing or misplaced:
            col.add("C18", "C18|map_marker_misplaced", f"--locations / --airports markers: not found on the map {missing}; {'; '.join(misplaced[:4])}", inp2)
        # panning moves the picture by what the title says the centre moved (and nothing else)
        def centre_in_title():
            t = next((l for l in sess.p.screen.text()[:3] if "rsadsb/radar" in l), "")
            m = re.search(r"\((-?\d+\.\d+),(-?\d+\.\d+)\)", t)
            return (float(m.group(1)), float(m.group(2))) if m else None
        def blue_now():
            cs = sess.p.screen.cells
            return sorted((r, c) for r in range(top + 1, bottom) for c in range(left + 1, right) if cs[r][c][1] == 4 and BRAILLE(cs[r][c][0]))
        c0 = centre_in_title()
        rows_per_deg_lat = None
        # (keyboard panning and dragging with the mouse compute the new centre by code of their own)
        def drag(dc, dr):
            c_, r_ = cc + 7, cr + 5
            for kind, c2, r2 in (("down", c_, r_), ("drag", c_, r_), ("drag", c_ + dc // 2, r_ + dr // 2), ("drag", c_ + dc, r_ + dr), ("up", c_ + dc, r_ + dr)):
                sess.send_raw(procs.mouse(kind, c2, r2), f"mouse:{kind}:{c2}:{r2}")
                sess.p.pump(0.03)
        stages = [("Up", 40, 0), ("Right", 10, 1)] if idx % 4 < 2 else [("DragDown", 10, 0), ("DragRight", 24, 1), ("Down", 25, 0), ("Left", 8, 1)]
        for keyname, n_keys, axis in stages:
            b0 = blue_now()
            t0 = centre_in_title()
            if keyname == "DragDown":
                drag(0, n_keys)
            elif keyname == "DragRight":
                drag(n_keys, 0)
            else:
                for _ in range(n_keys):
                    sess.key(keyname)
                    sess.p.pump(0.01)
            sess.settle(0.5)
            b1 = blue_now()
            t1 = centre_in_title()
            col.count("pan_stages_checked")
            if t0 is None or t1 is None or len(b0) != len(b1) or not b0:
                continue  # dots pushed off the canvas or title not readable: nothing to compare
            # the axis that is not panned keeps its coordinate exactly: pair the dots along it
            key = (lambda q: (q[1], q[0])) if axis == 0 else (lambda q: (q[0], q[1]))
            deltas = {(y[0] - x[0], y[1] - x[1]) for x, y in zip(sorted(b0, key=key), sorted(b1, key=key))}
            drs = sorted(dv[0] for dv in deltas)
            dcs = sorted(dv[1] for dv in deltas)
            moved_title = t1[axis] - t0[axis]
            if axis == 0:
                want = moved_title * 111.19 * (groups["N"][1] / (2 * d))  # north of the old centre: the dots go down
                got, other = drs, dcs
            else:
                dlon = (moved_title + 540) % 360 - 180
                want = -dlon * 111.19 * math.cos(math.radians(lat)) * (groups["E"][1] / (2 * d))
                got, other = dcs, drs
            if abs(lat) > 70:
                continue  # the stretched projection near the poles makes the linear estimate useless
            if got[-1] - got[0] > 2 or max(abs(o) for o in other) > 1 or abs((got[0] + got[-1]) / 2 - want) > 2.0 + 0.15 * abs(want) or (abs(want) >= 2 and got[0] * want <= 0):
                col.add("C18", f"C18|map_pan_inconsistent|{keyname}", f"{n_keys} x {keyname}: the title moved the centre from {t0} to {t1}; the aircraft moved by rows {drs[0]}..{drs[-1]} and columns {dcs[0]}..{dcs[-1]} (expected about {want:.1f} {'rows' if axis == 0 else 'columns'}, the other axis unchanged)", inp2)
        sess.key("Enter")
        sess.settle(0.5)
        if blue_now() != sorted(blue):
            col.add("C18", "C18|map_reset_does_not_restore_view", f"aircraft cells after panning and reset differ from before", inp2)
        if with_markers:
            # the reset must bring the markers back as well (they are part of the picture)
            cells = sess.p.screen.cells
            gone = []
            for label in markers:
                if not any(label in "".join(cells[r][c][0] for c in range(left + 1, right)) for r in range(top + 1, bottom)):
                    gone.append(label)
            if gone:
                col.add("C18", "C18|map_marker_misplaced|after_reset", f"--locations / --airports markers {gone} are no longer on the map after panning and reset", inp2)
            return
        # zooming changes the scale only: after three zoom-outs all eight aircraft are still there,
        # in the same directions and proportions, nearer to the centre; after five zoom-ins (net two
        # in) whoever is still on the canvas is in its direction, farther out; reset: the first picture
        def measure():
            cs = sess.p.screen.cells
            bl = [(r, c) for r in range(top + 1, bottom) for c in range(left + 1, right) if cs[r][c][1] == 4 and BRAILLE(cs[r][c][0])]
            g = {"N": [], "E": [], "S": [], "W": []}
            st = []
            for r, c in bl:
                dr, dc = r - cr, c - cc
                if abs(dc) <= 1 and dr < 0:
                    g["N"].append(-dr)
                elif abs(dc) <= 1 and dr > 0:
                    g["S"].append(dr)
                elif abs(dr) <= 1 and dc > 0:
                    g["E"].append(dc)
                elif abs(dr) <= 1 and dc < 0:
                    g["W"].append(-dc)
                else:
                    st.append((dr, dc))
            return {k: sorted(v) for k, v in g.items()}, st, sorted(bl)
        for _ in range(3):
            sess.key("-")
            sess.p.pump(0.05)
        sess.settle(0.5)
        g_out, stray_out, _ = measure()
        col.count("zoom_stages_checked")
        inp3 = dict(inp2, after="3 zoom-outs", offsets_now=g_out, stray_now=stray_out[:8])
        if stray_out or any(len(v) != 2 for v in g_out.values()):
            col.add("C18", "C18|map_direction|zoomed_out", f"after three zoom-outs the eight aircraft are drawn at offsets {g_out}, stray dots {stray_out[:6]} (before: {detail})", inp3)
        else:
            for k, v in g_out.items():
                if abs(v[1] - 2 * v[0]) > 2 or v[0] > groups[k][0] or v[1] > groups[k][1] or v[1] < 0.55 * groups[k][1] - 1:
                    col.add("C18", f"C18|map_not_proportional|zoomed_out|{k}", f"{k}: offsets {v} cells after three zoom-outs (factor 1/1.331), {groups[k]} before", inp3)
        for _ in range(5):
            sess.key("+")
            sess.p.pump(0.05)
        sess.settle(0.5)
        g_in, stray_in, _ = measure()
        col.count("zoom_stages_checked")
        inp4 = dict(inp2, after="3 zoom-outs, 5 zoom-ins", offsets_now=g_in, stray_now=stray_in[:8])
        if stray_in or any(len(v) < 1 or len(v) > 2 for v in g_in.values()):
            col.add("C18", "C18|map_direction|zoomed_in", f"after zooming in (net two steps) the aircraft are drawn at offsets {g_in}, stray dots {stray_in[:6]} (before: {detail}); the nearer aircraft of each side must still be on the canvas", inp4)
        else:
            for k, v in g_in.items():
                if v[0] < groups[k][0] or v[0] > 1.21 * groups[k][0] + 2:
                    col.add("C18", f"C18|map_not_proportional|zoomed_in|{k}", f"{k}: nearest offset {v[0]} cells after zooming in by 1.21, {groups[k][0]} before", inp4)
        sess.key("Enter")
        sess.settle(0.5)
        _, _, blue2 = measure()
        if blue2 != sorted(blue):
            col.add("C18", "C18|map_reset_does_not_restore_view", f"aircraft cells after zooming and reset {blue2[:8]} differ from before {sorted(blue)[:8]}", inp2)
        # Enter on a row of the Airplanes tab centres the map on that aircraft: the title names its
        # position as the (custom) centre, so its dot belongs in the middle of the canvas
        sess.key("F3")
        sess.settle(0.4)
        table = sess.airplanes_rows() or []
        n_down = 1 + idx % 5
        for _ in range(n_down):
            sess.key("Down")
            sess.p.pump(0.05)
        sess.key("Enter")
        sess.settle(0.6)
        t = centre_in_title()
        col.count("centre_on_aircraft_checks")
        selected = table[n_down - 1] if len(table) >= n_down else None
        on_map = any("┌Map" in l for l in sess.p.screen.text())
        if selected is not None and not selected["lat"] and on_map and any("CUSTOM" in l for l in sess.p.screen.text()[:3]):
            col.add("C18", "C18|map_centred_on_another_aircraft", f"Enter on the row of {selected['icao']}, which has no position, moved the view to {t}", inp2)
        elif selected is not None and selected["lat"] and t is not None and on_map and (abs(t[0] - float(selected["lat"])) > 0.0011 or abs(t[1] - float(selected["lon"])) > 0.0011):
            col.add("C18", "C18|map_centred_on_another_aircraft", f"Enter on the row of {selected['icao']} ({selected['lat']}, {selected['lon']}) moved the view to {t}", inp2)
        if t is not None and on_map and any("CUSTOM" in l for l in sess.p.screen.text()[:3]):
            now = blue_now()
            if not any(abs(r - cr) <= 1 and abs(c - cc) <= 1 for r, c in now):
                col.add("C18", "C18|map_not_centred_on_selected_aircraft", f"Enter on a row of the Airplanes tab: the title gives {t} (CUSTOM) as the centre of the view, but no aircraft is drawn at the centre of the canvas (row {cr}, column {cc}); aircraft cells {now[:10]}", inp2)
    except Inconclusive:
        # a session that cannot be completed because radar is gone is a finding, not a shrug
        if sess.p.alive():
            raise
        col.add("C17", f"C17|terminated_before_quit|{sess.panic_location()}", "radar died during a C18 session", inp)
        col.add("C18", f"C18|radar_died_while_showing_data|{sess.panic_location()}", "radar terminated during a session: nothing is shown any more", inp)
    finally:
        sess.close()


def main(a, lcol, col, run_all, scratch, START):
    import vlib
    thorough = a.tier == "thorough"
    jobs = []
    nd, nm, ne = (400, 160, 40) if thorough else (14, 10, 3)
    for i in range(nd):
        jobs.append((f"data#{i}", lambda rng, i=i: data_session(lcol, a.bin, a.vmon, rng, f"data#{i}", scratch)))
    for i in range(nm):
        jobs.append((f"map#{i}", lambda rng, i=i: map_session(lcol, a.bin, rng, f"map#{i}", scratch)))
    for i in range(ne):
        jobs.append((f"expiry#{i}", lambda rng, i=i: stats_expiry_session(lcol, a.bin, rng, f"expiry#{i}", scratch)))
    # long sessions first (they take the longest): 4-digit counts in the quick tier, 5-digit in thorough
    for i, n_msgs in enumerate([1003 + 7 * (a.seed % 50), 10_007 + 11 * (a.seed % 50)] if thorough else [1003 + 7 * (a.seed % 50)]):
        jobs.insert(0, (f"long#{i}", lambda rng, i=i, n_msgs=n_msgs: long_count_session(lcol, a.bin, a.vmon, rng, f"long#{i}", scratch, n_msgs)))
    for i in range(40 if thorough else 4):
        jobs.append((f"labels#{i}", lambda rng, i=i: label_session(lcol, a.bin, rng, f"labels#{i}", scratch)))
    for i in range(24 if thorough else 3):
        jobs.append((f"reconn#{i}", lambda rng, i=i: reconnect_session(lcol, a.bin, a.vmon, rng, f"reconn#{i}", scratch)))
    for i in range(16 if thorough else 2):
        jobs.insert(0, (f"relay#{i}", lambda rng, i=i: stats_relay_session(lcol, a.bin, rng, f"relay#{i}", scratch)))
    for i in range(6 if thorough else 1):
        jobs.append((f"crowdexp#{i}", lambda rng, i=i: crowd_expiry_session(lcol, a.bin, rng, f"crowdexp#{i}", scratch)))
    for i in range(24 if thorough else 2):
        jobs.append((f"gpsd#{i}", lambda rng, i=i: gpsd_session(lcol, a.bin, a.vmon, rng, f"gpsd#{i}", scratch)))
    for i in range(12 if thorough else 2):
        jobs.insert(0, (f"crowd#{i}", lambda rng, i=i: crowd_session(lcol, a.bin, a.vmon, rng, f"crowd#{i}", scratch)))
    run_all(jobs)
    ev = col.counters.get("rows_compared", 0) + col.counters.get("stats_compared", 0) + col.counters.get("view_control_sequences", 0) + col.counters.get("map_sessions", 0) * 8 + col.counters.get("expiry_sessions", 0) + col.counters.get("labels_read", 0) + col.counters.get("relay_sessions", 0)
    distinct = col.counters.get("data_sessions", 0) + col.counters.get("long_count_sessions", 0) + col.counters.get("crowd_sessions", 0) + col.counters.get("crowd_expiry_sessions", 0) + col.counters.get("gpsd_sessions", 0) + col.counters.get("map_sessions", 0) + col.counters.get("expiry_sessions", 0) + col.counters.get("relay_sessions", 0) + col.counters.get("reconnect_sessions", 0) + col.counters.get("label_sessions", 0)
    col.sample({"data_session": "20 aircraft in four quadrants with identification/velocity/position (some one parity only); all 10 columns of every Airplanes row == library run on the same lines; tab title; Stats totals; 1-40 view-control events then rows unchanged"})
    col.sample({"map_session": "8 aircraft due N/E/S/W at d and 2d km; blue braille cells relative to the axis crossing: direction, 2:1 proportion, E/W and N/S symmetry, receiver at the canvas centre, the same picture scaled after three zoom-outs and after five zoom-ins, reset restores the cells"})
    return vlib.finish(col, "C18", a.tier, a.seed, "exploration",
        "radar on a 200x60 pseudo-terminal fed by a scripted server: (a) data sessions: the reconstructed Airplanes table (address, callsign, lat, lon, heading, altitude, rate, speed, distance, message count; blanks without a position) == rows computed by the repository's library on the same recorded lines (vmon feedsim), tab title count, Stats 'Total'/'Most'; then 1-40 zoom/pan/reset/drag/scroll events and the table again; (b) expiry sessions (--filter-time 2): aircraft expire and return, Total = number of (re-)adds, Most = largest simultaneous count; (b') relay sessions (--filter-time 1): 10-14 aircraft, each first heard 1 s + 3..60 ms after its predecessor, so additions and expiries share turns of the client's loop; Total = number of addresses; (b'') reconnect sessions (--retry-tcp): the server closes and comes back after 0.2-4 s while one of three tabs is open; the table right after the reconnect == the table before, then == the library on the lines of both connections; (c) long sessions: one aircraft heard 1003+ (quick) / 10007+ (thorough) times, Msgs column exact; (c') crowded sessions: 70-130 aircraft on a 60-row terminal, rows collected while the selection moves down through the list; (c'') gpsd sessions: the receiver position comes from a stand-in gpsd and moves once (due east / due north); title, table and map must follow the fixes; (d) map sessions: aircraft due N/E/S/W at d and 2d: direction, proportion, symmetry, centre, reset; (d') label sessions: twelve aircraft with call signs, six of them outside the first picture: every label on the map has its aircraft's dot in the three rows below it, every dot with room above it has a label, at the start / zoomed in / panned / zoomed out / after reset; distinct_nontrivial = sessions (each a distinct seeded feed)",
        ["screen reconstruction by a minimal VT model; aircraft dots are the blue (38;5;4) braille cells with --disable-heading", "one-cell tolerance for direction/symmetry, two cells for the 2:1 proportion"],
        a.verif, START, ev, distinct, min_evaluations=20)
