"""C16: both clients treat the feed as a byte stream (exactly-once, in order, survive malformed
lines and disconnects). Recorded history -> offline checker."""
import os, random, re, time

import enc, procs, session
from session import Inconclusive

MALFORMED = {
    "none": [],
    "empty": [b"\n"],
    "semicolon": [b";\n"],
    "star_only": [b"*\n"],
    "star_semicolon": [b"*;\n"],
    "two_hex": [b"*8D;\n"],
    "odd_hex": [b"*8D4840D;\n"],
    "nonhex": [b"*8DZZ40D6202CC371C32CE0576098;\n", b"hello world\n"],
    "non_ascii": ["*8D4840D6é02CC371C32CE0576098;\n".encode(), "é\n".encode(), "*é;\n".encode(), "ééé\n".encode(), "*8D4840D6202CC371C32CE05760é\n".encode()],
    "invalid_utf8": [b"*8D48\xff\xfe40D6;\n", b"\xff\n", b"*8D4840D6202CC371C32CE05760\xff\xfe;\n", b"*8D4840D6202CC371C32CE0576098\xc3;\n"],
    "all_zero": [b"*0000000000000000000000000000;\n", b"*00000000000000;\n"],
    "undecodable_df": [b"*10FFFFFFFFFFFF;\n", b"*B8AAAAAAAAAAAAAAAAAAAAAAAAAA;\n"],
    "truncated_frame": [b"*8D4840D6;\n", b"*8D4840D6202CC371C32CE0;\n"],
    "long_line": [b"*" + b"10" * 2048 + b";\n", b"*" + b"ZY" * 2048 + b";\n", b"*" + b"8" * 4097 + b";\n", b"Z" * 70000 + b"\n", b"*" + b"8D" * 100000 + b";\n", b"\x00" * 9000 + b"\n"]
        # lengths (line feed included) at and around the sizes a reader works with: 1 KiB per
        # turn of radar's loop, the 8 KiB of a BufReader, the 64 KiB bound on a line
        + [b"g" * (n - 1) + b"\n" for n in (1023, 1024, 1025, 2048, 3072, 8191, 8192, 8193, 16384, 65535, 65536, 65537, 65538)],
    "crlf": [b"*8DABCDEF0000000000000000000000;\r\n"],
    "no_star": [b"8D4840D6202CC371C32CE0576098;\n"],
    "misplaced_markers": [b";*\n", b"abc;def*gh\n", b"*8D4840D6202CC371C32CE0576098;*8D40\n", b"**;;\n", b";\r\n", b"*;*;\n", b"* ;\n"],
    "punctuation_soup": None,  # generated per scenario: random lines over the alphabet of the protocol
    "near_miss_framing": None,  # filled in below: a decodable frame of a ghost aircraft in almost-right framing
}
# A perfectly decodable identification squitter of an aircraft no feed ever announces: if any of
# these lines is taken for a frame the ghost shows up (radar) or its hex is echoed (1090).
GHOST = 0x4CA7B5
GHOST_HEX = enc.long_frame(17, 5, GHOST, enc.me_ident(4, 0, "GHOST")).hex().upper().encode()
MALFORMED["near_miss_framing"] = [
    b"*" + GHOST_HEX + b"\n",            # no ';'
    b"*" + GHOST_HEX + b";;\n",          # doubled ';'
    GHOST_HEX + b";\n",                  # no '*'
    b"**" + GHOST_HEX + b";\n",
    b"*" + GHOST_HEX + b"; \n",          # blank after ';'
    b" *" + GHOST_HEX + b";\n",          # blank before '*'
    b"*" + GHOST_HEX + b";x\n",
    b"*" + GHOST_HEX + b"\r\n",
    b"*;" + GHOST_HEX + b";\n",
    b"*" + GHOST_HEX + b"*;\n",
    b"*" + GHOST_HEX + b":\n",
    b"@" + GHOST_HEX + b";\n",           # another Beast-ASCII line type
    b"*" + GHOST_HEX[:14] + b" " + GHOST_HEX[14:] + b";\n",
]
# hex digits are 0-9 a-f A-F: a parser built on integer parsing would take "+A" for 0x0A
GHOST2 = 0x0A0B0C
GHOST2_HEX = enc.long_frame(17, 5, GHOST2, enc.me_ident(4, 0, "SIGNS")).hex().upper().encode()
assert GHOST2_HEX[2:8] == b"0A0B0C"
MALFORMED["near_miss_framing"] += [
    b"*" + GHOST2_HEX[:2] + b"+A" + GHOST2_HEX[4:] + b";\n",
    b"*" + GHOST2_HEX[:4] + b"+B" + GHOST2_HEX[6:] + b";\n",
    b"*" + GHOST2_HEX[:2] + b"+A+B+C" + GHOST2_HEX[8:] + b";\n",
    b"*0x" + GHOST2_HEX + b";\n",
    b"*" + GHOST2_HEX + b"h;\n",
]
SOUP_ALPHABET = b"*;*;8DAF09 \r"


def soup(rng):
    out = []
    for _ in range(10):
        n = rng.randint(1, 12)
        out.append(bytes(rng.choice(SOUP_ALPHABET) for _ in range(n)) + b"\n")
    return out
# One over-long line whose last 31 bytes read like a frame line of the ghost: "<junk>*<hex>;\n" is
# one malformed line however it is cut and however long the sender pauses inside it; a client that
# gives up on the head of the line (a buffer bound, a timeout) must not take the tail for a frame.
MALFORMED["long_line_frame_tail"] = [junk + b"*" + GHOST_HEX + b";\n" for junk in
    (b"x" * 1100, b"*" + b"8D" * 750, b"x" * 5000, b"y" * 33, b"*8D4840D6202CC371C32CE0576098;" * 40, b"z" * 66000, b"*" + b"00" * 40000)]
SEGMENTATIONS = ["per_line", "all_at_once", "per_byte", "random_cuts", "cut_after_star", "cut_in_hex", "cut_before_semicolon", "cut_before_newline", "three_lines", "cut_before_tail"]
SENTINEL = 0xFFFFF0
DELAYS = {"none": (0, 0), "lt_timeout": (0.005, 0.030), "near_timeout": (0.045, 0.055), "gt_timeout": (0.070, 0.150)}


def build_feed(rng, n_lines, malformed, limit_parsing=False):
    """Returns (lines, expect) where lines = list of (kind, bytes) and expect = per-address counts / last callsign."""
    addrs = [0x480000 + rng.randrange(1 << 16) for _ in range(rng.randint(1, 5))]
    lines = []
    expect = {}
    counter = rng.randrange(1 << 20)
    bad = MALFORMED[malformed]
    if bad is None:
        bad = soup(rng)
    if n_lines <= 3 and bad and max(len(b) for b in bad) > 1500:
        # a pause behind every byte: only the shortest of the long lines
        bad = sorted(bad, key=len)[:2]
    n_bad = 0
    for k in range(n_lines):
        roll = rng.random()
        a = rng.choice(addrs)
        counter += 1
        if roll < 0.25:
            cs = "C%05d" % (counter % 100000)
            fr = enc.long_frame(17, rng.randrange(8), a, enc.me_ident(rng.randint(1, 4), 0, cs))
            lines.append(("good", enc.line(fr), a, cs))
        elif roll < 0.85:
            # one in five comes as DF18 (TIS-B / ADS-R carry the address in the same place)
            fr = enc.long_frame(18 if (rng.random() < 0.2 and not limit_parsing) else 17, rng.randrange(8), a, enc.me_unique(rng.choice([0, 23, 25, 27]), counter))
            if rng.random() < 0.05 or k == 3:
                # a bit error in the parity field: the frame still decodes (with a non-zero
                # checksum) and the clients pass it on like any other
                b = bytearray(fr)
                b[11 + rng.randrange(3)] ^= 1 << rng.randrange(8)
                fr = bytes(b)
            if rng.random() < 0.06 or k == 1:
                # bytes behind the frame (a feeder that pads its records): still this frame
                fr = fr + bytes(rng.getrandbits(8) for _ in range(rng.choice([1, 2, 7, 14])))
            lines.append(("good", enc.line(fr), a, None))
        elif roll < 0.92:
            # well-formed lines of other formats: processed, but nothing to count
            m = bytearray(rng.getrandbits(8) for _ in range(7))
            enc.setbits(m, 1, 5, rng.choice([0, 4, 5, 11]))
            if rng.random() < 0.3:
                m = m + bytearray(rng.choice([0, 0xFF]) for _ in range(rng.choice([1, 7])))  # a short reply padded to the long length
            lines.append(("other", enc.line(bytes(m)), None, None))
        else:
            m = bytearray(rng.getrandbits(8) for _ in range(14))
            # incl. the military format (decodes, renders nothing) and the Comm-D range
            enc.setbits(m, 1, 5, rng.choice([16, 20, 21, 24, 19, 19, 27, 31]))
            lines.append(("other", enc.line(bytes(m)), None, None))
        # a feeder that merges receivers passes the same squitter on more than once: a line that
        # repeats the one before it (or an earlier one) is a line like any other
        if lines[-1][0] == "good" and (rng.random() < 0.08 or k == n_lines // 2):
            lines.append(lines[-1])
        elif rng.random() < 0.04:
            earlier = [l for l in lines if l[0] == "good"]
            if earlier:
                lines.append(rng.choice(earlier))
        if bad and rng.random() < 0.25:
            lines.append(("bad", bad[n_bad % len(bad)] if len(bad) >= 3 else rng.choice(bad), None, None))
            n_bad += 1
    if bad and not any(k == "bad" for k, *_ in lines):
        lines.insert(len(lines) // 2, ("bad", bad[0], None, None))
        n_bad += 1
    # kinds with many variants: every variant is sent at least once
    while bad and len(bad) >= 3 and n_bad < len(bad):
        lines.append(("bad", bad[n_bad], None, None))
        n_bad += 1
    # every malformed line is followed by sentinels: end with good lines
    for _ in range(3):
        counter += 1
        a = rng.choice(addrs)
        lines.append(("good", enc.line(enc.long_frame(17, rng.randrange(8), a, enc.me_unique(0, counter))), a, None))
    # the last line of every feed announces a sentinel aircraft: once it is on screen every earlier
    # line has been consumed (lines are processed in order), however slowly the client runs
    lines.append(("good", enc.line(enc.long_frame(17, 5, SENTINEL, enc.me_ident(4, 0, "ENDFEED"))), SENTINEL, "ENDFEED"))
    for kind, data, a, cs in lines:
        if kind == "good":
            e = expect.setdefault(a, {"msgs": 0, "callsign": None})
            e["msgs"] += 1
            if cs is not None:
                e["callsign"] = cs
    return lines, expect


def segment(rng, lines, seg_kind, delay_kind):
    """Cut the concatenated stream into (bytes, delay_after) segments. Returns (plan_steps, n_midline_pauses)."""
    stream = b"".join(d for _, d, *_ in lines)
    cuts = set()
    pos = 0
    bounds = []
    for _, d, *_ in lines:
        bounds.append((pos, pos + len(d)))
        pos += len(d)
    if seg_kind == "per_line":
        cuts = {e for _, e in bounds}
    elif seg_kind == "all_at_once":
        cuts = set()
    elif seg_kind == "per_byte":
        cuts = set(range(1, len(stream)))
    elif seg_kind == "random_cuts":
        cuts = {rng.randrange(1, len(stream)) for _ in range(max(1, len(stream) // 12))}
    elif seg_kind == "three_lines":
        cuts = {e for i, (_, e) in enumerate(bounds) if i % 3 == 2}
    else:
        for s, e in bounds:
            ln = e - s
            if seg_kind == "cut_after_star":
                c = s + 1
            elif seg_kind == "cut_in_hex":
                c = s + max(1, ln // 2)
            elif seg_kind == "cut_before_tail":
                # long lines: right before their last 31 bytes (the length of a frame line)
                c = e - 31 if ln > 40 else s + max(1, ln // 2)
            elif seg_kind == "cut_before_semicolon":
                c = e - 2
            else:  # cut_before_newline
                c = e - 1
            if s < c < e:
                cuts.add(c)
            cuts.add(e)
    cuts.discard(0)
    cuts.discard(len(stream))
    order = sorted(cuts)
    steps = []
    lo, hi = DELAYS[delay_kind]
    prev = 0
    ends = {e for _, e in bounds}
    midline = 0
    many = len(order) > 400
    for c in order + [len(stream)]:
        steps.append(("send", stream[prev:c]))
        prev = c
        if c == len(stream):
            break
        if hi > 0 and (not many or rng.random() < 400.0 / len(order)):
            d = rng.uniform(lo, hi)
            steps.append(("sleep", d))
            if c not in ends and d > 0.050:
                midline += 1
    return steps, midline


VMON = None  # path of the vmon binary (set by main): renders frames with the repository's library


def render_frames(hexes, scratch):
    """The library's text for each hex string (None where it does not decode or is all zero)."""
    import json, subprocess, tempfile
    if not hexes:
        return []
    fd, path = tempfile.mkstemp(prefix="hex-", suffix=".txt", dir=scratch)
    with os.fdopen(fd, "w") as f:
        f.write("\n".join(hexes) + "\n")
    try:
        out = subprocess.run([VMON, "render", "--hex-file", path], capture_output=True, text=True, timeout=60)
        if out.returncode != 0:
            raise Inconclusive(f"vmon render failed: {out.stderr[-200:]}")
        return json.loads(out.stdout)
    finally:
        os.unlink(path)


def framed(d):
    """Content between '*' and ';' of a feed line the way the clients frame it, or None."""
    try:
        t = d.decode("utf-8")
    except UnicodeDecodeError:
        return None
    t = t.rstrip("\r\n")
    return t[1:-1] if len(t) >= 2 and t.startswith("*") and t.endswith(";") else None


def check_1090(col, binpath, rng, tag, seg_kind, delay_kind, malformed, scratch, n_lines=None, pause_s=0.0):
    slow = seg_kind == "per_byte" and delay_kind == "gt_timeout"  # a pause behind every byte: keep the feed short
    lines, _ = build_feed(rng, n_lines or (3 if slow else rng.randint(20, 90)), malformed)
    steps, midline = segment(rng, lines, seg_kind, delay_kind)
    # every third scenario the server goes away right behind the last line: what was sent before
    # the close still has to come out (nothing about 1090's own fate after a disconnect is judged)
    closing = tag.rsplit("#", 1)[-1].isdigit() and int(tag.rsplit("#", 1)[-1]) % 3 == 1
    if pause_s:
        # the feed falls silent for a while in the middle (the connection stays open), then goes on
        steps = steps[: len(steps) // 2] + [("sleep", pause_s)] + steps[len(steps) // 2:]
    plan = steps + [("mark", "feed_done")] + ([("close",), ("sleep", 30)] if closing else [("sleep", 30)])
    # the two --panic-* options are for debugging the decoder: --panic-decode ends the client on a
    # frame that does not decode, --panic-display on one that renders to nothing. Each is used only
    # where its own condition cannot arise: then nothing may end the client.
    has_empty_display = any(k == "other" and (d[1:3] in (b"98", b"99", b"9A", b"9B", b"9C", b"9D", b"9E", b"9F")) for k, d, *_ in lines)
    n_tag = int(tag.rsplit("#", 1)[-1]) if tag.rsplit("#", 1)[-1].isdigit() else 0
    extra = []
    if n_tag % 4 == 2 and not has_empty_display:
        extra = ["--panic-display"]
    elif n_tag % 4 == 3 and malformed == "none":
        extra = ["--panic-decode"]
    s = session.Dump1090Session(binpath, plan, extra, env_extra={"RUST_LOG": ["debug", "trace", "off", "info"][n_tag % 4]})
    cls = f"seg={seg_kind}|delay={delay_kind}|malformed={malformed}" + ("|then_close" if closing else "") + ("|" + extra[0].lstrip("-") if extra else "")
    inp = {"client": "1090", "options": extra, "segmentation": seg_kind, "delay": delay_kind, "malformed": malformed, "lines": [d.decode("latin1") for _, d, *_ in lines], "tag": tag}
    try:
        # wait until the feed is out and the client is quiet
        end = time.monotonic() + 90 + pause_s
        while time.monotonic() < end:
            marks = [e for e in s.srv.log if e[1] == "mark"]
            if marks and time.monotonic() - max(s.t_last, s.srv.t_last_send or 0) > 0.7:
                break
            if s.p.poll() is not None or s.srv.error:
                break
            time.sleep(0.05)
        else:
            raise Inconclusive("1090 scenario did not finish")
        if s.srv.error:
            if s.srv.error.startswith("accept:") and s.srv.connections == 0 and s.p.poll() is None:
                # 20 s of a listening server without a connection attempt: the client processes nothing
                col.count("scenarios_1090")
                col.add("C16", f"C16|1090_never_connects|{cls}", f"1090 is running but did not connect to the listening server within its accept timeout ({s.srv.error})", inp)
                return
            raise Inconclusive(f"feed server: {s.srv.error}")
        if closing:
            # give the client a moment behind the close (it may exit or keep polling; both are fine)
            t_end = time.monotonic() + 1.5
            while time.monotonic() < t_end:
                time.sleep(0.05)
        died = s.p.poll() is not None and not closing
        out = s.out.decode("utf-8", "replace")
        err = s.err.decode("utf-8", "replace")
        want = [d[1:-2].decode().lower() for k, d, *_ in lines if k in ("good", "other")]
        wantset = set(want)
        got = [l for l in out.split("\n") if l in wantset]
        col.count("scenarios_1090")
        col.count("lines_sent", len(want))
        col.count("midline_pauses_over_50ms", midline)
        col.cls(f"1090|{cls}")
        if died:
            m = session.PANIC_RE.search(err)
            col.add("C16", f"C16|1090_terminated|{cls}", f"1090 exited with status {s.p.returncode} while the server was connected; stderr: {err[-400:]}", dict(inp, panic=m.group(1) if m else None))
            return
        if GHOST_HEX.decode().lower() in out.split("\n"):
            col.add("C16", f"C16|1090_malformed_line_taken_for_frame|{cls}", "a line that is not '*<hex>;' (missing, doubled or misplaced markers around decodable hex) was echoed as a frame", inp)
        # the whole output: for every well-formed line its echo followed by the library's rendering of
        # that frame, in feed order, and nothing else that looks like a frame. Lines that are framed but
        # are no frames may leave their echo behind (and a CR LF terminated frame may be processed or not).
        good_hex = [d[1:-2].decode() for k, d, *_ in lines if k in ("good", "other")]
        texts = render_frames(good_hex, scratch)
        expected = []
        for h, t in zip(good_hex, texts):
            expected.append(h.lower())
            if t is not None:
                expected += (t + "\n").split("\n")[:-1]
        allowed = set()
        bad_framed = [framed(d) for k, d, *_ in lines if k == "bad"]
        bad_framed = [b for b in bad_framed if b is not None]
        for b, t in zip(bad_framed, render_frames([b if all(c in "0123456789abcdefABCDEF" for c in b) and b else "zz" for b in bad_framed], scratch)):
            allowed.add(b.lower())
            if t is not None:
                allowed.update((t + "\n").split("\n")[:-1])
        out_lines = out.split("\n")
        if out_lines and out_lines[-1] == "":
            out_lines.pop()
        if "" in allowed:
            out_lines = [l for l in out_lines if l != ""]
            expected = [l for l in expected if l != ""]
        ptr = 0
        stray = None
        for l in out_lines:
            if ptr < len(expected) and l == expected[ptr]:
                ptr += 1
            elif l in allowed:
                continue
            elif stray is None:
                stray = l
        col.count("output_lines_compared_1090", len(out_lines))
        if got == want and (stray is not None or ptr < len(expected)):
            what = f"unexpected output line {stray!r}" if stray is not None else f"output ends before {expected[ptr]!r}"
            col.add("C16", f"C16|1090_output_differs_from_library_rendering|{cls}", f"every well-formed line was echoed once and in order, but the full output is not 'echo + rendering of that frame' for each of them: {what} (matched {ptr} of {len(expected)} expected lines)", inp)
        if got != want:
            # classify
            missing = [w for w in want if w not in got]
            dup = len(got) - len(set(got))
            seq_ok = [g for g in got if g in set(want)]
            what = "lost" if missing else ("duplicated" if dup else "reordered")
            col.add("C16", f"C16|1090_{what}_lines|{cls}", f"{len(missing)} of {len(want)} well-formed lines not echoed exactly once (first missing {missing[:2]}), {dup} duplicates; {midline} mid-line pauses > 50 ms", inp)
    finally:
        s.close()


def parse_when_stable(sess, sentinel_msgs=1, cap=60.0, quiet_cap=6.0):
    """Switch to the Airplanes tab; wait until the sentinel aircraft of the feed shows the expected
    message count (everything before it has then been processed) and the table stopped changing.
    If the sentinel never shows up the table is taken as it is after `cap` seconds: a lost
    sentinel is a lost line."""
    sess.key("F3")
    last = None
    stable_since = time.monotonic()
    end = time.monotonic() + cap
    while time.monotonic() < end:
        sess.p.pump(0.15)
        if not sess.p.alive():
            return None
        rows = sess.airplanes_rows()
        snap = repr(rows)
        if snap != last:
            last = snap
            stable_since = time.monotonic()
            continue
        quiet = time.monotonic() - stable_since
        seen = rows is not None and any(r["icao"] == "%06x" % SENTINEL and r["msgs"] == str(sentinel_msgs) for r in rows)
        # only the sentinel (or the cap) ends the wait: "nothing has changed for a while" would be a
        # verdict by wall clock on a loaded machine (quiet_cap is kept for the callers' arithmetic)
        if seen and quiet > 0.5:
            return rows
    return sess.airplanes_rows()


def compare_rows(col, rows, expect, cls, inp, phase):
    got = {int(r["icao"], 16): r for r in rows}
    bad = []
    for a, e in expect.items():
        r = got.get(a)
        if r is None:
            bad.append(f"{a:06x}: not shown (expected {e['msgs']} messages)")
            continue
        if r["msgs"] != str(e["msgs"]):
            bad.append(f"{a:06x}: Msgs {r['msgs']} but {e['msgs']} lines were sent")
        if e["callsign"] is not None and r["callsign"] != e["callsign"]:
            bad.append(f"{a:06x}: callsign {r['callsign']!r} but the last identification line said {e['callsign']!r}")
    for a in got:
        if a not in expect and a != 0xABCDEF:  # ABCDEF: the CRLF-terminated line, counted or not (DESIGN §3)
            bad.append(f"{a:06x}: shown but never sent")
    if bad:
        counts_off = any("Msgs" in b or "not shown" in b for b in bad)
        what = "count" if counts_off else "order"
        col.add("C16", f"C16|radar_{what}_mismatch|{phase}|{cls}", "; ".join(bad[:6]), inp)
        return False
    return True


def check_radar(col, binpath, rng, tag, seg_kind, delay_kind, malformed, disconnect, scratch, limit=None, n_lines=None, pause_s=0.0):
    if limit is None:
        limit = rng.random() < 0.25
    slow = seg_kind == "per_byte" and delay_kind == "gt_timeout"
    lines, expect = build_feed(rng, n_lines or (3 if slow else rng.randint(20, 70)), malformed, limit_parsing=limit)
    steps, midline = segment(rng, lines, seg_kind, delay_kind)
    # how long radar may need to work through this feed (about 100 lines or 100 KB per second when
    # nothing else runs): every wait that covers a backlog is this much longer
    drain = len(lines) / 40.0 + sum(len(d) for _, d, *_ in lines) / 40000.0 + pause_s
    if pause_s:
        steps = steps[: len(steps) // 2] + [("sleep", pause_s)] + steps[len(steps) // 2:]
    opts = ["--filter-time", "100000"]
    if limit:
        opts.append("--limit-parsing")
    plan = steps + [("mark", "feed_done")]
    lines2, expect2, last_words = [], {}, []
    partial_desc = None
    retrying = disconnect in ("retry", "retry_midline", "retry_backlog", "retry_reset")
    if retrying:
        opts.append("--retry-tcp")
        # second connection: more lines for the same aircraft; counts must continue
        addrs = list(expect.keys())
        lines2 = []
        for k in range(rng.randint(5, 20)):
            a = rng.choice(addrs)
            lines2.append(("good", enc.line(enc.long_frame(17, rng.randrange(8), a, enc.me_unique(23, 900000 + k))), a, None))
        lines2.append(("good", enc.line(enc.long_frame(17, 5, SENTINEL, enc.me_ident(4, 0, "ENDFEED"))), SENTINEL, "ENDFEED"))
        if disconnect == "retry_midline":
            # the connection drops in the middle of a line: what was received of it must not leak into the next connection
            # (also in the middle of something far too long to be a line: whatever state the client
            # keeps about it belongs to the connection that ended)
            partial = rng.choice([b"*8D4840D6202C", b"*8D4840D6202C", b"x" * 70000, b"*" + b"8D" * 50000, b"\n" + b"y" * 66000, b"z" * 1024])
            partial_desc = f"{len(partial)} bytes starting {partial[:16]!r}, no line end, then the connection drops"
            plan += [("wait_for", "first_checked"), ("send", partial), ("sleep", 1.5 if len(partial) > 1000 else 0.3), ("close",), ("sleep", rng.choice([0.1, 0.5])), ("accept", 25.0 + drain)]
        elif disconnect == "retry_reset":
            # the server dies abortively (RST instead of FIN) and comes back
            plan += [("wait_for", "first_checked"), ("reset",), ("sleep", rng.choice([0.1, 0.5])), ("accept", 25.0 + drain)]
        elif disconnect == "retry_backlog":
            # the server stays up but does not accept for longer than the client's 10 s connect timeout
            plan += [("wait_for", "first_checked"), ("close",), ("saturate", 13.0, 40.0)]
        else:
            # last words: complete lines sent in one piece with the orderly close right behind them
            # (FIN follows the data: they are delivered, so they are processed - exactly once,
            # not lost with the old reader and not replayed by the new one)
            for k in range(rng.randint(1, 40)):
                a = rng.choice(addrs)
                last_words.append(("good", enc.line(enc.long_frame(17, rng.randrange(8), a, enc.me_unique(25, 800000 + k))), a, None))
            plan += [("wait_for", "first_checked"), ("send", b"".join(d for _, d, *_ in last_words)), ("close",), ("sleep", rng.choice([0.1, 0.5, 2.0])), ("accept", 25.0 + drain)]
            lines2 = last_words + lines2
        plan += [("send", d) for _, d, *_ in lines2[len(last_words):]] + [("mark", "feed2_done"), ("sleep", 60)]
    elif disconnect == "midline":
        plan += [("wait_for", "first_checked"), ("send", b"*8D4840D6202C"), ("sleep", 0.2), ("close",), ("sleep", 20)]
    elif disconnect == "reset":
        plan += [("wait_for", "first_checked"), ("reset",), ("sleep", 20)]
    else:
        plan += [("wait_for", "first_checked"), ("close",), ("sleep", 20)]
    cls = f"seg={seg_kind}|delay={delay_kind}|malformed={malformed}" + ("|limit_parsing" if limit else "")
    inp = {"client": "radar", "options": opts, "segmentation": seg_kind, "delay": delay_kind, "malformed": malformed, "disconnect": disconnect, "lines": [d.decode("latin1") for _, d, *_ in lines], "tag": tag}
    if partial_desc:
        inp["unfinished_line_before_the_drop"] = partial_desc
    # every other scenario with the log switched on (the arguments of the log lines are code, too)
    n_tag = int(tag.rsplit("#", 1)[-1]) if tag.rsplit("#", 1)[-1].isdigit() else 0
    env_extra = {"RUST_LOG": ["debug", "trace"][n_tag % 4 // 2]} if n_tag % 2 == 0 else {"RUST_LOG": "off"}
    inp["RUST_LOG"] = env_extra["RUST_LOG"]
    sess = session.RadarSession(binpath, plan, opts=opts, rows=40, cols=130, scratch=scratch, env_extra=env_extra)
    try:
        sess.wait_connected()
        # wait for the first mark
        end = time.monotonic() + 90 + pause_s
        while time.monotonic() < end and not any(e[1] == "mark" for e in sess.srv.log):
            sess.p.pump(0.05)
            if not sess.p.alive():
                break
        col.count("scenarios_radar")
        col.count("lines_sent", len(lines))
        col.count("midline_pauses_over_50ms", midline)
        col.cls(f"radar|{cls}|disc={disconnect}")
        if not sess.p.alive():
            loc = sess.panic_location()
            col.add("C16", f"C16|radar_terminated|{cls}", f"radar exited (status {sess.p.p.returncode}, panic at {loc}) while the server was connected and no quit was requested", dict(inp, panic=loc))
            return
        # A server that drops the connection while the client still works through a backlog (a big
        # feed: radar reads 1 KiB per turn of its loop) is a history of its own: the first-connection
        # snapshot cannot be taken (the reconnect follows the last line at once), the comparison after
        # the reconnect covers both connections.
        # (only for an orderly close: an abortive one discards what the client has not read yet,
        # so there the drop waits for the snapshot however long the client needs)
        backlog = retrying and disconnect != "retry_reset" and sum(len(d) for _, d, *_ in lines) > 100000
        if backlog:
            sess.srv.release("first_checked")
            col.count("disconnects_with_backlog")
            rows = None
            ok = True
            sess.key("F3")
        else:
            # (radar works through about 100 KB per second: a run of over-long lines keeps the table
            # unchanged for a while)
            size = sum(len(d) for _, d, *_ in lines)
            rows = parse_when_stable(sess, cap=60.0 + drain, quiet_cap=6.0 + size / 40000.0)
            sess.srv.release("first_checked")
            if rows is None:
                if not sess.p.alive():
                    loc = sess.panic_location()
                    col.add("C16", f"C16|radar_terminated|{cls}", f"radar exited (status {sess.p.p.returncode}, panic at {loc}) while the server was connected", dict(inp, panic=loc))
                    return
                if not sess.ui_present() and not any(e[1] == "closed" for e in sess.srv.log):
                    # alive, but not showing its UI although the server never closed: it gave the connection up
                    col.add("C16", f"C16|radar_left_live_connection|{cls}", f"the server kept the connection open, yet radar left its main screen (the last screen lines: {[l.strip() for l in sess.p.screen.text() if l.strip()][-3:]})", inp)
                    return
                raise Inconclusive("Airplanes table not found on screen")
            ok = compare_rows(col, rows, expect, cls, inp, "first_connection")
        tc = sess.tab_title_count()
        if ok and not backlog and tc is not None and tc != len(expect) and not (malformed == "crlf" and tc == len(expect) + 1):
            col.add("C16", f"C16|radar_count_mismatch|title|{cls}", f"tab title counts {tc} aircraft, {len(expect)} were sent", inp)
        # ---- disconnect behaviour
        if any(e[1] == "closed" for e in sess.srv.log) and not sess.p.alive() and disconnect != "retry":
            pass
        if disconnect in ("retry", "retry_midline", "retry_backlog", "retry_reset"):
            end = time.monotonic() + 90 + drain
            while time.monotonic() < end and not any(e[1] == "mark" and e[2] == "feed2_done" for e in sess.srv.log):
                sess.p.pump(0.05)
                if not sess.p.alive() or sess.srv.error:
                    break
            if not sess.p.alive():
                col.add("C16", f"C16|radar_retry_exited|{cls}|disc={disconnect}", f"with --retry-tcp radar exited (status {sess.p.p.returncode}, panic {sess.panic_location()}) after the server dropped the connection", inp)
                return
            if sess.srv.connections < 2:
                if sess.srv.error:
                    col.add("C16", f"C16|radar_retry_no_reconnect|{cls}|disc={disconnect}", f"with --retry-tcp radar did not reconnect ({sess.srv.error})", inp)
                    return
                raise Inconclusive("second connection not observed")
            for _, d, a, _ in lines2:
                expect[a]["msgs"] += 1
            size = sum(len(d) for _, d, *_ in lines) if backlog else 0
            rows = parse_when_stable(sess, sentinel_msgs=expect[SENTINEL]["msgs"], cap=60.0 + drain, quiet_cap=6.0 + size / 40000.0)
            if rows is None:
                if sess.p.alive() and not sess.ui_present():
                    col.add("C16", f"C16|radar_left_live_connection|{cls}|disc={disconnect}", f"after the reconnect the server kept the second connection open, yet radar left its main screen (the last screen lines: {[l.strip() for l in sess.p.screen.text() if l.strip()][-3:]})", inp)
                    return
                raise Inconclusive("Airplanes table not found after reconnect")
            compare_rows(col, rows, expect, cls + ("" if disconnect == "retry" else f"|disc={disconnect}"), dict(inp, lines2=[d.decode() for _, d, *_ in lines2]), "after_reconnect_tracked_aircraft_kept")
            col.count("reconnects_observed")
            # the new connection is silent now ("however delayed"): the client must stay alive to its
            # operator - a tab switch has to show up on screen
            sess.key("F4")
            t_end = time.monotonic() + 8
            while time.monotonic() < t_end and not any("Total Airplanes" in l for l in sess.p.screen.text()):
                sess.p.pump(0.2)
            if sess.p.alive() and not any("Total Airplanes" in l for l in sess.p.screen.text()):
                sess.key("F4")
                sess.p.pump(3.0)
                if sess.p.alive() and not any("Total Airplanes" in l for l in sess.p.screen.text()):
                    col.add("C16", f"C16|radar_unresponsive_on_silent_feed_after_reconnect|disc={disconnect}", "after the reconnect the feed paused; radar did not react to a tab key within 11 s (its screen still shows the Airplanes tab)", inp)
        else:
            # wait for the close, then for the exit
            end = time.monotonic() + 30
            while time.monotonic() < end and not any(e[1] == "closed" for e in sess.srv.log):
                sess.p.pump(0.05)
            rc = sess.p.wait_exit(20)
            col.count("disconnects_observed")
            if rc is None:
                col.add("C16", f"C16|radar_no_exit_on_disconnect|disc={disconnect}", "radar still running 20 s after the server closed the connection (no --retry-tcp)", inp)
            else:
                loc = sess.panic_location()
                if rc != 0 or loc:
                    col.add("C16", f"C16|radar_unclean_exit_on_disconnect|disc={disconnect}", f"exit status {rc}, panic {loc}", inp)
                diff = procs.termios_diff(sess.p.termios_before, sess.p.termios_now())
                if diff or not sess.p.screen.cursor_visible or sess.p.screen.mouse_reporting():
                    col.add("C16", f"C16|radar_terminal_not_restored_on_disconnect|disc={disconnect}", f"termios flags changed {diff}, cursor visible {sess.p.screen.cursor_visible}, mouse modes on {sess.p.screen.mouse_reporting()}", inp)
    except Inconclusive as e:
        # a client that is up, says it is waiting for the server, and never connects to a listening
        # server (another 25 s on top of the 20 s already waited) processes no line at all
        if "never connected" in str(e) and sess.p.alive() and sess.srv.connections == 0:
            end = time.monotonic() + 25
            while time.monotonic() < end and sess.srv.connections == 0 and sess.p.alive():
                sess.p.pump(0.2)
            if sess.srv.connections == 0 and sess.p.alive() and any("Waiting for connection" in l for l in sess.p.screen.text()):
                col.add("C16", f"C16|radar_never_connects|{cls}", "radar shows 'Waiting for connection' for 45 s while the server is listening on that port and accepts at once", inp)
                return
        # a scenario that cannot be completed because radar is gone (and nobody asked it to quit) is a finding
        if sess.p.alive() or any(e[1] == "closed" for e in sess.srv.log):
            raise
        loc = sess.panic_location()
        col.add("C16", f"C16|radar_terminated|{cls}", f"radar exited (status {sess.p.p.returncode}, panic at {loc}) while the server was connected and no quit was requested", dict(inp, panic=loc))
    finally:
        sess.close()


def check_many_reconnects(col, binpath, rng, tag, scratch, n_conn):
    """--retry-tcp through a dozen (thorough: more) short connections in a row: each one is found again
    within the usual limit, every line of every connection counts once."""
    addrs = [0x490000 + rng.randrange(1 << 16) for _ in range(2)]
    expect = {a: {"msgs": 0, "callsign": None} for a in addrs}
    plan = []
    counter = rng.randrange(1 << 20)
    for k in range(n_conn):
        if k:
            plan += [("close",), ("sleep", rng.choice([0.05, 0.2, 0.6])), ("accept", 25.0)]
        for _ in range(rng.randint(1, 4)):
            a = rng.choice(addrs)
            counter += 1
            plan.append(("send", enc.line(enc.long_frame(17, rng.randrange(8), a, enc.me_unique(23, counter)))))
            expect[a]["msgs"] += 1
        plan.append(("sleep", 0.4))
    plan.append(("send", enc.line(enc.long_frame(17, 5, SENTINEL, enc.me_ident(4, 0, "ENDFEED")))))
    expect[SENTINEL] = {"msgs": 1, "callsign": "ENDFEED"}
    plan += [("mark", "feed_done"), ("sleep", 60)]
    opts = ["--filter-time", "100000", "--retry-tcp"]
    cls = f"reconnects={n_conn}"
    inp = {"client": "radar", "options": opts, "connections": n_conn, "tag": tag}
    sess = session.RadarSession(binpath, plan, opts=opts, rows=40, cols=130, scratch=scratch)
    try:
        sess.wait_connected()
        end = time.monotonic() + 60 + 30 * n_conn
        while time.monotonic() < end and not sess.srv.marked("feed_done") and not sess.srv.error and sess.p.alive():
            sess.p.pump(0.1)
        col.count("scenarios_radar")
        col.cls(f"radar|{cls}")
        if not sess.p.alive():
            col.add("C16", f"C16|radar_retry_exited|{cls}", f"with --retry-tcp radar exited (status {sess.p.p.returncode}, panic {sess.panic_location()}) during a series of {n_conn} short connections (connection {sess.srv.connections})", inp)
            return
        if sess.srv.error or not sess.srv.marked("feed_done"):
            col.add("C16", f"C16|radar_retry_no_reconnect|{cls}", f"with --retry-tcp radar did not come back within 25 s after connection {sess.srv.connections} of {n_conn} ({sess.srv.error})", inp)
            return
        col.count("reconnects_observed", n_conn - 1)
        rows = parse_when_stable(sess)
        if rows is None:
            raise Inconclusive("Airplanes table not found on screen")
        compare_rows(col, rows, expect, cls, inp, "after_many_reconnects")
    finally:
        sess.close()


def main(a, lcol, col, run_all, scratch, START):
    global VMON
    VMON = a.vmon
    import vlib
    thorough = a.tier == "thorough"
    jobs = []
    rng0 = random.Random(f"{a.seed}/C16/plan")
    malformed_kinds = list(MALFORMED.keys())
    # quick: every malformed kind once per client, every segmentation x delay class covered once,
    # the three disconnect modes; thorough: random combinations on top
    combos = []
    for k, m in enumerate(malformed_kinds):
        combos.append(("per_line", "none", m))
        if m != "none":
            # the same malformed lines cut in the middle with pauses beyond the read timeout
            # (non-UTF-8 bytes late in a line: the cut must leave a valid head behind the pause)
            sk = "cut_in_hex" if m in ("invalid_utf8", "non_ascii") else "cut_before_tail" if m == "long_line_frame_tail" else ["cut_in_hex", "random_cuts", "cut_after_star"][k % 3]
            combos.append((sk, "gt_timeout", m))
    for sk in SEGMENTATIONS:
        for dk in DELAYS:
            combos.append((sk, dk, "none"))
    # every byte in its own segment with a pause beyond the read timeout behind it: whatever is not
    # valid text must not be dropped byte by byte so that the rest passes for a frame
    for m in ("invalid_utf8", "non_ascii"):
        combos.append(("per_byte", "gt_timeout", m))
    extra = 1500 if thorough else 0
    for _ in range(extra):
        combos.append((rng0.choice(SEGMENTATIONS), rng0.choice(list(DELAYS)), rng0.choice(malformed_kinds)))
    n_backlog = 0
    for i, (sk, dk, m) in enumerate(combos):
        tag = f"{sk}/{dk}/{m}#{i}"
        disc = ["close", "retry", "midline", "retry_midline", "reset", "retry_reset"][i % 6]
        if i % 40 == 21 and (thorough or n_backlog == 0):
            disc = "retry_backlog"
            n_backlog += 1
        # --limit-parsing: on for the plain run of every malformed kind, off for its mid-line-pause run, random elsewhere
        limit = (dk == "none") if m != "none" else None
        if thorough or i % 2 == 0 or m != "none":
            jobs.append((f"radar/{tag}", lambda rng, sk=sk, dk=dk, m=m, disc=disc, tag=tag, limit=limit: check_radar(lcol, a.bin, rng, tag, sk, dk, m, disc, scratch, limit)))
        jobs.append((f"1090/{tag}", lambda rng, sk=sk, dk=dk, m=m, tag=tag: check_1090(lcol, a.bin, rng, tag, sk, dk, m, scratch)))
    # bulk: thousands of lines in one piece (every position of a line relative to the reader's 8 KiB
    # buffer and to radar's 1 KiB per turn occurs), for 1090 also cut at random
    for i, (client, sk, n_bulk) in enumerate([("1090", "all_at_once", 10000), ("1090", "random_cuts", 3000), ("radar", "all_at_once", 1500)] + ([("1090", "three_lines", 20000), ("radar", "all_at_once", 4000)] if thorough else [])):
        tag = f"{sk}/none/bulk#{900 + 3 * i}"
        if client == "1090":
            jobs.insert(0, (f"1090/{tag}", lambda rng, sk=sk, tag=tag, n_bulk=n_bulk: check_1090(lcol, a.bin, rng, tag, sk, "none", "semicolon", scratch, n_lines=n_bulk)))
        else:
            jobs.insert(0, (f"radar/{tag}", lambda rng, sk=sk, tag=tag, n_bulk=n_bulk: check_radar(lcol, a.bin, rng, tag, sk, "none", "two_hex", "retry", scratch, False, n_lines=n_bulk)))
    # the feed falls silent for 16 s in the middle of a connection, then goes on
    jobs.insert(0, ("1090/per_line/none/none#silence", lambda rng: check_1090(lcol, a.bin, rng, "per_line/none/none#902", "per_line", "none", "none", scratch, pause_s=16.0)))
    jobs.insert(0, ("radar/per_line/none/none#silence", lambda rng: check_radar(lcol, a.bin, rng, "per_line/none/none#904", "per_line", "none", "none", "retry", scratch, False, pause_s=16.0)))
    for i, n_conn in enumerate([13] + ([13, 20, 30] if thorough else [])):
        jobs.insert(0, (f"radar/reconnects#{i}", lambda rng, i=i, n_conn=n_conn: check_many_reconnects(lcol, a.bin, rng, f"reconnects#{i}", scratch, n_conn)))
    if a.replay:
        import json
        r = json.load(open(a.replay))["input"]
        jobs = []
        for k in range(3):
            if r.get("client") == "1090":
                jobs.append((f"1090/replay#{k}", lambda rng: check_1090(lcol, a.bin, rng, "replay", r["segmentation"], r["delay"], r["malformed"], scratch)))
            else:
                jobs.append((f"radar/replay#{k}", lambda rng: check_radar(lcol, a.bin, rng, "replay", r["segmentation"], r["delay"], r["malformed"], r.get("disconnect", "close"), scratch)))
    run_all(jobs)
    n = col.counters.get("scenarios_radar", 0) + col.counters.get("scenarios_1090", 0)
    col.sample({"scenario": "radar per_line/none/none", "what": "20-70 unique '*<hex>;' lines for 1-5 aircraft; per-aircraft Msgs column and last callsign compared after the feed; then server close -> exit status / terminal restored"})
    col.sample({"scenario": "1090 cut_in_hex/gt_timeout/none", "what": "every line cut in the middle of its hex digits with 70-150 ms pauses; stdout echo sequence must equal the sent sequence"})
    return vlib.finish(col, "C16", a.tier, a.seed, "fault_enumeration",
        "each scenario = one fresh client process against a scripted TCP feed of unique '*<hex>;' lines: 10 segmentation kinds x 4 delay classes (below / around / above the 50 ms read timeout) x 20 malformed-line kinds (incl. near-miss framing of a decodable ghost frame: missing, doubled, misplaced markers; over-long lines up to 200 KB, also with a pause right before a tail that reads like a frame line) (each followed by sentinel lines) x 7 disconnect modes (close / close mid-line / abortive close (RST) / close+re-accept with --retry-tcp / drop mid-line + re-accept / RST + re-accept / server alive but not accepting for 13 s); 1090: stdout echo sequence == sent sequence, and the whole output == echo + the library's rendering of each well-formed frame (nothing else that looks like a frame); radar: per-aircraft Msgs column == lines sent, callsign == last identification line, tab title count, exit status and terminal state after a disconnect, counts continue after a reconnect; distinct_nontrivial = distinct (client, segmentation, delay, malformed, disconnect) cells run",
        ["delays are relative to a 50 ms timeout on a loaded machine: the number of mid-line pauses > 50 ms is what the plan requested, the property must hold for every schedule", "CRLF-terminated lines are not counted as well-formed lines"],
        a.verif, START, n, len(col.classes), extra={"fault_kinds": {"segmentations": SEGMENTATIONS, "delays": list(DELAYS), "malformed": malformed_kinds, "disconnect": ["close", "midline", "reset", "retry", "retry_midline", "retry_reset", "retry_backlog"]}}, min_evaluations=10)
