"""Python twin of vref's encoders: Mode S parity, CPR encoder, DF17 frames with unique content."""
import math

GEN = 0x1FFF409


def parity(msg: bytes, nbits: int) -> int:
    rem = 0
    for i in range(nbits - 24):
        bit = (msg[i // 8] >> (7 - (i % 8))) & 1
        top = (rem >> 23) & 1
        rem = (rem << 1) & 0xFFFFFF
        if top ^ bit:
            rem ^= GEN & 0xFFFFFF
    return rem


def seal(msg: bytearray, nbits: int, want: int = 0):
    n = nbits // 8
    p = parity(msg, nbits) ^ want
    msg[n - 3] = (p >> 16) & 0xFF
    msg[n - 2] = (p >> 8) & 0xFF
    msg[n - 1] = p & 0xFF


def setbits(msg: bytearray, first: int, last: int, val: int):
    width = last - first + 1
    for i in range(width):
        b = first + i
        idx = (b - 1) // 8
        bit = (val >> (width - 1 - i)) & 1
        sh = 7 - ((b - 1) % 8)
        msg[idx] = (msg[idx] & ~(1 << sh) & 0xFF) | (bit << sh)


def long_frame(df: int, ca: int, addr: int, me: bytes) -> bytes:
    m = bytearray(14)
    setbits(m, 1, 5, df)
    setbits(m, 6, 8, ca)
    setbits(m, 9, 32, addr)
    m[4:11] = me
    seal(m, 112, 0)
    return bytes(m)


def char_code(c: str) -> int:
    if c == "#":
        return 0  # an unassigned code (rendered as '#')
    if "A" <= c <= "Z":
        return ord(c) - ord("A") + 1
    if "0" <= c <= "9":
        return ord(c) - ord("0") + 48
    return 32


def me_ident(tc: int, ca: int, callsign: str) -> bytes:
    me = bytearray(7)
    setbits(me, 1, 5, tc)
    setbits(me, 6, 8, ca)
    cs = (callsign + "        ")[:8]
    for i, ch in enumerate(cs):
        setbits(me, 9 + 6 * i, 14 + 6 * i, char_code(ch))
    return bytes(me)


NZ = 15.0
NB = 131072.0


def dlat(i):
    return 360.0 / (4 * NZ - i)


def modp(a, b):
    r = a - b * math.floor(a / b)
    if r < 0:
        r += b
    if r >= b:
        r -= b
    return r


def nl(lat):
    a = abs(lat)
    if a == 0:
        return 59
    if a == 87.0:
        return 2
    if a > 87.0:
        return 1
    c = math.cos(math.pi / 180.0 * a)
    x = 1 - (1 - math.cos(math.pi / (2 * NZ))) / (c * c)
    v = 2 * math.pi / math.acos(x)
    return min(59, int(math.floor(v)))


def cpr_encode(lat, lon, odd):
    i = 1 if odd else 0
    dl = dlat(i)
    yz = math.floor(NB * modp(lat, dl) / dl + 0.5)
    rlat = dl * (yz / NB + round(lat / dl - yz / NB))  # zone index from the rounded YZ (stable at zone boundaries)
    nli = max(nl(rlat) - i, 1)
    dlon = 360.0 / nli
    xz = math.floor(NB * modp(lon, dlon) / dlon + 0.5)
    return int(yz) % 131072, int(xz) % 131072


def ac12_q(alt_ft: int) -> int:
    n = ((alt_ft + 1000) // 25) & 0x7FF
    return ((n >> 4) << 5) | 0x10 | (n & 0xF)


def me_airpos(tc, alt_ft, lat, lon, odd):
    yz, xz = cpr_encode(lat, lon, odd)
    me = bytearray(7)
    setbits(me, 1, 5, tc)
    setbits(me, 9, 20, ac12_q(alt_ft))
    setbits(me, 22, 22, 1 if odd else 0)
    setbits(me, 23, 39, yz)
    setbits(me, 40, 56, xz)
    return bytes(me)


def me_velocity(ew_dir, ew, ns_dir, ns, vr_sign, vr, subtype=1):
    me = bytearray(7)
    setbits(me, 1, 5, 19)
    setbits(me, 6, 8, subtype)
    setbits(me, 14, 14, ew_dir)
    setbits(me, 15, 24, ew)
    setbits(me, 25, 25, ns_dir)
    setbits(me, 26, 35, ns)
    setbits(me, 37, 37, vr_sign)
    setbits(me, 38, 46, vr)
    return bytes(me)


def me_unique(tc: int, counter: int) -> bytes:
    """A payload no interpretation depends on, carrying a 48 bit sequence number (types 0, 23, 25-27)."""
    me = bytearray(7)
    setbits(me, 1, 5, tc)
    setbits(me, 9, 56, counter & ((1 << 48) - 1))
    return bytes(me)


def line(frame: bytes) -> bytes:
    return b"*" + frame.hex().upper().encode() + b";\n"


def destination(lat, lon, bearing_deg, dist_km):
    d = dist_km / 6371.0
    br = math.radians(bearing_deg)
    la1 = math.radians(lat)
    lo1 = math.radians(lon)
    la2 = math.asin(math.sin(la1) * math.cos(d) + math.cos(la1) * math.sin(d) * math.cos(br))
    lo2 = lo1 + math.atan2(math.sin(br) * math.sin(d) * math.cos(la1), math.cos(d) - math.sin(la1) * math.sin(la2))
    lon2 = math.degrees(lo2)
    while lon2 >= 180:
        lon2 -= 360
    while lon2 < -180:
        lon2 += 360
    return math.degrees(la2), lon2
