"""Process drivers: a scripted TCP feed server, a pty-hosted radar, a pipe-hosted 1090."""
import codecs, errno, fcntl, os, select, signal, socket, struct, subprocess, termios, threading, time

import vt


class FeedServer(threading.Thread):
    """Executes a plan of steps against the (single) client connection:
       ("send", bytes) ("sleep", seconds) ("close",) ("reset",) ("accept", timeout) ("mark", label)
    and records what it did with timestamps."""

    def __init__(self, plan, accept_timeout=20.0, listen=True):
        super().__init__(daemon=True)
        self.plan = plan
        self.sock = socket.socket(socket.AF_INET, socket.SOCK_STREAM)
        self.sock.setsockopt(socket.SOL_SOCKET, socket.SO_REUSEADDR, 1)
        self.sock.bind(("127.0.0.1", 0))
        # listen=False: the port stays reserved (bound) but refuses connections - nobody else's
        # server can be given the same port while a client is pointed at it
        if listen:
            self.sock.listen(4)
        self.port = self.sock.getsockname()[1]
        self.log = []
        self.conn = None
        self.done = threading.Event()
        self.stop = threading.Event()
        self.accept_timeout = accept_timeout
        self.error = None
        self.connections = 0
        self.t_last_send = None
        self.peer_closed = False
        self.gates = {}

    def release(self, name):
        self.gates.setdefault(name, threading.Event()).set()

    def marked(self, label):
        return any(e[1] == "mark" and e[2] == label for e in self.log)

    def _accept(self, timeout):
        self.sock.settimeout(timeout)
        try:
            c, _ = self.sock.accept()
        except OSError as e:
            self.error = f"accept: {e}"
            return False
        c.setsockopt(socket.IPPROTO_TCP, socket.TCP_NODELAY, 1)
        self.conn = c
        self.connections += 1
        self.log.append((time.monotonic(), "accepted", self.connections))
        return True

    def run(self):
        try:
            if not self._accept(self.accept_timeout):
                return
            for step in self.plan:
                if self.stop.is_set():
                    break
                kind = step[0]
                if kind == "send":
                    try:
                        self.conn.sendall(step[1])
                        self.t_last_send = time.monotonic()
                        self.log.append((self.t_last_send, "sent", len(step[1])))
                    except OSError as e:
                        self.peer_closed = True
                        self.log.append((time.monotonic(), "send_failed", str(e)))
                        break
                elif kind == "sleep":
                    time.sleep(step[1])
                elif kind == "close":
                    try:
                        self.conn.shutdown(socket.SHUT_RDWR)
                    except OSError:
                        pass
                    self.conn.close()
                    self.conn = None
                    self.log.append((time.monotonic(), "closed", None))
                elif kind == "reset":
                    # abortive close: the client sees a connection reset (RST), not an orderly end
                    import struct
                    try:
                        self.conn.setsockopt(socket.SOL_SOCKET, socket.SO_LINGER, struct.pack("ii", 1, 0))
                    except OSError:
                        pass
                    self.conn.close()
                    self.conn = None
                    self.log.append((time.monotonic(), "closed", "reset"))
                elif kind == "accept":
                    if not self._accept(step[1]):
                        break
                elif kind == "flood":
                    # a stream without any line end (e.g. the wrong port of the receiver: binary data),
                    # a chunk every few milliseconds for step[1] seconds
                    end = time.monotonic() + step[1]
                    chunk = step[2] if len(step) > 2 else b"\x1a3\x00\xffZ8D4840D6" * 6
                    n = 0
                    try:
                        while time.monotonic() < end and not self.stop.is_set():
                            self.conn.sendall(chunk)
                            n += len(chunk)
                            time.sleep(0.004)
                    except OSError:
                        pass
                    self.log.append((time.monotonic(), "flooded", n))
                elif kind == "flap":
                    # a relay with a dead backend: every connection is accepted and closed at once
                    end = time.monotonic() + step[1]
                    self.sock.settimeout(0.2)
                    n = 0
                    while time.monotonic() < end and not self.stop.is_set():
                        try:
                            c, _ = self.sock.accept()
                            c.close()
                            n += 1
                        except OSError:
                            pass
                    self.log.append((time.monotonic(), "flapped", n))
                elif kind == "saturate":
                    # the server is alive but does not accept: fill the accept queue with dummy
                    # connections for step[1] seconds, so that further connects time out; then drain
                    dummies = []
                    for _ in range(12):
                        d = socket.socket(socket.AF_INET, socket.SOCK_STREAM)
                        d.setblocking(False)
                        try:
                            d.connect(("127.0.0.1", self.port))
                        except (BlockingIOError, OSError):
                            pass
                        dummies.append(d)
                    self.log.append((time.monotonic(), "saturated", len(dummies)))
                    end = time.monotonic() + step[1]
                    while time.monotonic() < end and not self.stop.is_set():
                        time.sleep(0.1)
                    ports = set()
                    for d in dummies:
                        try:
                            ports.add(d.getsockname()[1])
                        except OSError:
                            pass
                    # drain: dummy connections are closed, the first foreign connection is the client
                    self.sock.settimeout(step[2] if len(step) > 2 else 30.0)
                    got = False
                    try:
                        while not got:
                            c, peer = self.sock.accept()
                            if peer[1] in ports:
                                c.close()
                                continue
                            c.setsockopt(socket.IPPROTO_TCP, socket.TCP_NODELAY, 1)
                            self.conn = c
                            self.connections += 1
                            self.log.append((time.monotonic(), "accepted", self.connections))
                            got = True
                    except OSError as e:
                        self.error = f"accept after saturation: {e}"
                    for d in dummies:
                        try:
                            d.close()
                        except OSError:
                            pass
                    if not got:
                        break
                elif kind == "mark":
                    self.log.append((time.monotonic(), "mark", step[1]))
                elif kind == "wait_for":
                    # the driver releases the next part of the feed (e.g. after operator actions)
                    ev = self.gates.setdefault(step[1], threading.Event())
                    while not ev.wait(0.1):
                        if self.stop.is_set():
                            break
        except Exception as e:  # harness trouble, never a verdict
            self.error = repr(e)
        finally:
            self.done.set()

    def shutdown(self):
        self.stop.set()
        for s in (self.conn, self.sock):
            try:
                if s:
                    s.close()
            except OSError:
                pass


def set_winsize(fd, rows, cols):
    fcntl.ioctl(fd, termios.TIOCSWINSZ, struct.pack("HHHH", rows, cols, 0, 0))


class PtyProc:
    """Child on a fresh pseudo-terminal. Keeps the byte stream, a VT screen model and termios snapshots."""

    def __init__(self, argv, rows=40, cols=140, env=None, cwd=None):
        self.master, self.slave = os.openpty()
        set_winsize(self.master, rows, cols)
        self.termios_before = termios.tcgetattr(self.slave)
        self.screen = vt.Screen(rows, cols)
        self.raw = bytearray()
        self.dec = codecs.getincrementaldecoder("utf-8")("replace")
        self.t_last_output = time.monotonic()
        e = dict(os.environ)
        e["TERM"] = "xterm-256color"
        e.pop("RUST_LOG", None)
        if env:
            e.update(env)

        def pre():
            os.setsid()
            fcntl.ioctl(0, termios.TIOCSCTTY, 0)

        self.p = subprocess.Popen(argv, stdin=self.slave, stdout=self.slave, stderr=self.slave, env=e, cwd=cwd, preexec_fn=pre, close_fds=True)
        self.rows, self.cols = rows, cols

    def pump(self, timeout=0.0):
        """Read whatever the child wrote; returns number of bytes."""
        total = 0
        end = time.monotonic() + timeout
        while True:
            r, _, _ = select.select([self.master], [], [], max(0.0, min(0.05, end - time.monotonic())))
            if r:
                try:
                    data = os.read(self.master, 65536)
                except OSError as ex:
                    if ex.errno == errno.EIO:
                        data = b""
                    else:
                        raise
                if data:
                    total += len(data)
                    self.raw += data
                    self.screen.feed(self.dec.decode(data))
                    self.t_last_output = time.monotonic()
                    continue
            if time.monotonic() >= end:
                break
        return total

    def write(self, data: bytes):
        try:
            os.write(self.master, data)
        except OSError:
            pass

    def resize(self, rows, cols):
        self.rows, self.cols = rows, cols
        set_winsize(self.master, rows, cols)
        self.screen.resize(rows, cols)
        try:
            os.killpg(os.getpgid(self.p.pid), signal.SIGWINCH)
        except OSError:
            pass

    def alive(self):
        return self.p.poll() is None

    def wait_exit(self, timeout):
        end = time.monotonic() + timeout
        while time.monotonic() < end:
            self.pump(0.05)
            if self.p.poll() is not None:
                self.pump(0.2)
                return self.p.returncode
        return None

    def termios_now(self):
        return termios.tcgetattr(self.slave)

    def settle(self, quiet=0.35, cap=8.0):
        """Wait until the child has produced no output for `quiet` seconds (cap: inconclusive guard)."""
        end = time.monotonic() + cap
        self.pump(0.05)
        while time.monotonic() < end:
            self.pump(0.05)
            if time.monotonic() - self.t_last_output >= quiet:
                return True
        return False

    def kill(self):
        try:
            if self.p.poll() is None:
                self.p.kill()
                self.p.wait(timeout=5)
        except Exception:
            pass
        for name in ("master", "slave"):
            fd = getattr(self, name)
            if fd is not None:
                setattr(self, name, None)  # never close twice: the number may already belong to another session
                try:
                    os.close(fd)
                except OSError:
                    pass


def termios_diff(a, b):
    """Names of the flags that differ between two tcgetattr() results (iflag, oflag, cflag, lflag)."""
    names = {
        0: ["IGNBRK", "BRKINT", "IGNPAR", "PARMRK", "INPCK", "ISTRIP", "INLCR", "IGNCR", "ICRNL", "IXON", "IXANY", "IXOFF"],
        1: ["OPOST", "ONLCR", "OCRNL", "ONOCR", "ONLRET"],
        2: ["CSIZE", "CSTOPB", "CREAD", "PARENB", "PARODD", "HUPCL", "CLOCAL"],
        3: ["ISIG", "ICANON", "ECHO", "ECHOE", "ECHOK", "ECHONL", "NOFLSH", "TOSTOP", "IEXTEN"],
    }
    out = []
    for idx, ns in names.items():
        for n in ns:
            m = getattr(termios, n, None)
            if m is None:
                continue
            if (a[idx] & m) != (b[idx] & m):
                out.append(n)
    return out


# ---- key / mouse encoders (xterm)
KEYS = {
    "F1": b"\x1bOP", "F2": b"\x1bOQ", "F3": b"\x1bOR", "F4": b"\x1bOS", "F5": b"\x1b[15~",
    "Tab": b"\t", "Enter": b"\r", "Up": b"\x1b[A", "Down": b"\x1b[B", "Right": b"\x1b[C", "Left": b"\x1b[D",
    "q": b"q", "CtrlC": b"\x03", "l": b"l", "i": b"i", "h": b"h", "t": b"t", "n": b"n", "-": b"-", "+": b"+",
    "Esc": b"\x1b", "PageUp": b"\x1b[5~", "Home": b"\x1b[H", "BackTab": b"\x1b[Z", "x": b"x", "Space": b" ",
    # every other key of a keyboard is an operator action too (none of them is a quit request:
    # 'q' with any modifier and Ctrl-C are)
    "F6": b"\x1b[17~", "F7": b"\x1b[18~", "F8": b"\x1b[19~", "F9": b"\x1b[20~", "F10": b"\x1b[21~", "F11": b"\x1b[23~", "F12": b"\x1b[24~",
    "End": b"\x1b[F", "PageDown": b"\x1b[6~", "Insert": b"\x1b[2~", "Delete": b"\x1b[3~", "Backspace": b"\x7f",
    "ShiftF1": b"\x1b[1;2P", "CtrlUp": b"\x1b[1;5A", "AltLeft": b"\x1b[1;3D", "ShiftTab": b"\x1b[Z", "CtrlA": b"\x01", "CtrlL": b"\x0c",
    # events of newer terminals / protocols (none of them a quit request): focus reports, key release and
    # repeat events in the kitty encoding, keys with the Super modifier
    "FocusIn": b"\x1b[I", "FocusOut": b"\x1b[O", "KittyReleaseX": b"\x1b[120;1:3u", "KittyRepeatDown": b"\x1b[1;1:2B", "KittyReleaseEnter": b"\x1b[13;1:3u",
    "KittyPressTab": b"\x1b[9;1:1u", "SuperA": b"\x1b[97;9u", "KittyReleaseF3": b"\x1b[13;1:3~",
    "AltX": b"\x1bx", "0": b"0", "9": b"9", "Q_upper_is_not_q": b"Z", "?": b"?", "euro": "\u20ac".encode(), "a-umlaut": "\u00e4".encode(),
}


def mouse(kind, col, row):
    """SGR (1006) mouse report; col/row 0-based."""
    b, suffix = {"down": (0, "M"), "up": (0, "m"), "drag": (32, "M"), "scrollup": (64, "M"), "scrolldown": (65, "M"), "rightdown": (2, "M"), "move": (35, "M"),
                 "middledown": (1, "M"), "middleup": (1, "m"), "rightup": (2, "m"), "rightdrag": (34, "M"), "scrollleft": (66, "M"), "scrollright": (67, "M"),
                 "shiftdown": (4, "M"), "ctrldrag": (48, "M"), "altscrollup": (72, "M")}[kind]
    return f"\x1b[<{b};{col + 1};{row + 1}{suffix}".encode()


class FakeGpsd(threading.Thread):
    """A stand-in for gpsd on 127.0.0.1:2947 (the port is fixed in radar): completes the JSON
    handshake, then per connection either reports positions periodically, reports one and goes
    silent, sends a line that is no JSON, or hangs up. Shared by all sessions of a run; if the
    port is taken (another run is using it) it simply is not started."""

    def __init__(self, lat=52.1, lon=4.1, ip="127.0.0.1", modes=("periodic", "once", "garbage", "hangup", "no_fix", "huge_line", "midline_close", "odd_json", "bytewise", "proto2", "bad_handshake"), drift=0.0005):
        super().__init__(daemon=True)
        self.lat, self.lon = lat, lon   # may be changed while running: the next report carries the new fix
        self.ip, self.modes, self.drift = ip, modes, drift
        self.connections = 0
        self.sock = socket.socket(socket.AF_INET, socket.SOCK_STREAM)
        self.sock.setsockopt(socket.SOL_SOCKET, socket.SO_REUSEADDR, 1)
        self.ok = True
        try:
            self.sock.bind((self.ip, 2947))
            self.sock.listen(16)
        except OSError:
            self.ok = False
        self.stop = False

    def run(self):
        if not self.ok:
            return
        self.sock.settimeout(0.5)
        while not self.stop:
            try:
                c, _ = self.sock.accept()
            except OSError:
                continue
            self.connections += 1
            threading.Thread(target=self._serve, args=(c, self.connections), daemon=True).start()
        self.sock.close()

    def _serve(self, c, k):
        try:
            c.settimeout(2.0)
            mode = self.modes[k % len(self.modes)]
            if mode == "proto2":
                # an old gpsd: the handshake of the client library fails (its thread may end - the UI must not)
                c.sendall(b'{"class":"VERSION","release":"2.96","rev":"2.96","proto_major":2,"proto_minor":9}\r\n')
                time.sleep(5)
                return
            if mode == "bad_handshake":
                c.sendall(b'{"class":"DEVICES","devices":[]}\r\nnot json at all\r\n')
                time.sleep(5)
                return
            c.sendall(b'{"class":"VERSION","release":"3.17","rev":"3.17","proto_major":3,"proto_minor":12}\r\n')
            try:
                c.recv(200)  # ?WATCH=...
            except OSError:
                pass
            c.sendall(b'{"class":"DEVICES","devices":[{"path":"/dev/gps","activated":"2026-10-03T00:00:00.000Z"}]}\r\n')
            c.sendall(b'{"class":"WATCH","enable":true,"json":true,"nmea":false}\r\n')
            mode = self.modes[k % len(self.modes)]
            tpv = lambda i: ('{"class":"TPV","mode":3,"lat":%.6f,"lon":%.6f}\r\n' % (self.lat + self.drift * i, self.lon)).encode()
            if mode == "periodic":
                for i in range(600):
                    if self.stop:
                        break
                    if not getattr(self, "silent", False):
                        c.sendall(tpv(i))
                    time.sleep(0.2)
            elif mode == "once":
                c.sendall(tpv(0))
                time.sleep(90)  # one report, then silence
            elif mode == "garbage":
                c.sendall(b"this is not json\r\n" + tpv(1))
                time.sleep(90)
            elif mode == "no_fix":
                # reports without a position: no fix yet (mode 0/1), a TPV without lat/lon, other classes
                for i in range(40):
                    c.sendall(b'{"class":"TPV","mode":%d}\r\n' % (i % 2) + b'{"class":"SKY","satellites":[]}\r\n' + b'{"class":"TPV","mode":2,"lat":null,"lon":null}\r\n' + b'{"class":"TPV","mode":3,"lat":52.0}\r\n')
                    time.sleep(0.2)
                c.sendall(tpv(3))
                time.sleep(90)
            elif mode == "huge_line":
                c.sendall(b'{"class":"TPV","mode":3,"lat":52.0,"lon":4.0,"pad":"' + b"x" * 2_000_000 + b'"}\r\n' + tpv(4))
                c.sendall(b"y" * 1_000_000)  # and a line that never ends
                time.sleep(90)
            elif mode == "midline_close":
                c.sendall(tpv(5) + b'{"class":"TPV","mode":3,"la')
                time.sleep(0.3)
            elif mode == "odd_json":
                for junk in (b'[]\r\n', b'null\r\n', b'{"class":"TPV","mode":"three","lat":"north","lon":[1,2]}\r\n', b'{"class":"TPV","mode":3,"lat":1e999,"lon":-1e999}\r\n',
                             b'{"class":"TPV","mode":3,"lat":91.5,"lon":540.0}\r\n', b'{"class":"TPV","mode":3,"lat":NaN,"lon":NaN}\r\n', b'\xff\xfe\x00\r\n', b'\r\n', b'{"class":"ERROR","message":"x"}\r\n',
                             b'{"class":"TPV","mode":3,"lat":52.0,"lon":4.0,"lat":53.0}\r\n', b'{' * 5000 + b'\r\n'):
                    c.sendall(junk)
                    time.sleep(0.1)
                time.sleep(90)
            elif mode == "bytewise":
                for b_ in tpv(6) * 3:
                    c.sendall(bytes([b_]))
                    time.sleep(0.01)
                time.sleep(90)
            else:
                c.sendall(tpv(2))
                time.sleep(0.5)  # hang up
        except OSError:
            pass
        finally:
            try:
                c.close()
            except OSError:
                pass
