"""C17: no operator action or terminal size crashes radar; quit restores the terminal; invalid
command-line values are usage errors."""
import os, random, subprocess, time

import c16, enc, procs, session
from session import Inconclusive

SIZES = [(1, 1), (1, 80), (24, 1), (2, 2), (3, 5), (10, 20), (24, 80), (50, 150), (100, 300), (4, 49), (5, 60)]
KEYNAMES = [k for k in procs.KEYS if k not in ("q", "CtrlC")]
GPSD_IP = "127.0.0.1"


def aircraft_lines(rng, n, lat, lon, spread_km=150):
    out = []
    for k in range(n):
        addr = 0x4A0000 + k
        la, lo = enc.destination(lat, lon, rng.uniform(0, 360), rng.uniform(1, spread_km))
        if k % 3 == 1 and out:
            la, lo = prev  # every third aircraft flies in formation: same 0.01 degree cell (coverage heat map)
        prev = (la, lo)
        # flight ids as transponders really send them: eight characters, one character, none entered
        # (eight blanks), blanks inside, the characters outside A-Z/0-9, or no identification at all
        cs = ["T%05d" % k, "T%05d" % k, "        ", "X", "AB  CD 1", "12345678", "#A#B#C#D", " LEAD", None][rng.randrange(9)]
        ident = [] if cs is None else [enc.line(enc.long_frame(17, 5, addr, enc.me_ident(rng.randint(1, 4), rng.randrange(8), cs)))]
        # altitudes incl. the codes that decode to "no altitude" (a position without details) and the extremes
        alts = [rng.choice([-1000, -1000, -975, 0, 25, 50175]) if rng.random() < 0.25 else 1000 + 25 * rng.randrange(1500) for _ in range(2)]
        if k % 7 == 3:
            alts = [-1000, -1000]
        pos = [enc.line(enc.long_frame(17, 5, addr, enc.me_airpos(11, alts[0], la, lo, False))),
               enc.line(enc.long_frame(17, 5, addr, enc.me_airpos(11, alts[1], la, lo, True)))]
        out += (ident + pos) if rng.random() < 0.6 else (pos + ident)
        if rng.random() < 0.7:
            out.append(enc.line(enc.long_frame(17, 5, addr, enc.me_velocity(rng.randrange(2), rng.randrange(1, 600), rng.randrange(2), rng.randrange(1, 600), rng.randrange(2), rng.randrange(1, 100)))))
    return out


def gen_events(rng, n, rows, cols):
    ev = []
    for _ in range(n):
        r = rng.random()
        if r < 0.50:
            # bias to the actions with state behind them
            ev.append(("key", rng.choice(KEYNAMES + ["F3", "F3", "Down", "Down", "Up", "Enter", "Enter", "F1", "Tab"])))
        elif r < 0.80:
            kind = rng.choice(["down", "up", "drag", "drag", "scrollup", "scrolldown", "rightdown", "move", "down", "up", "drag", "scrollup", "scrolldown",
                               "middledown", "middleup", "rightup", "rightdrag", "scrollleft", "scrollright", "shiftdown", "ctrldrag", "altscrollup"])
            where = rng.random()
            if where < 0.3:
                c, rw = rng.randrange(0, 52), rng.randrange(0, 5)      # tab bar hit boxes
            elif where < 0.5:
                # touchscreen buttons: three boxes stacked in the left ten columns below the tab bar
                c, rw = rng.randrange(0, 12), rng.choice([rng.randrange(0, rows + 2), 4 + (rows - 5) // 6, 4 + (rows - 5) // 2, 4 + 5 * (rows - 5) // 6])
            elif where < 0.9:
                c, rw = rng.randrange(0, max(1, cols)), rng.randrange(0, max(1, rows))
            else:
                c, rw = rng.randrange(0, 400), rng.randrange(0, 400)  # outside the window
            ev.append(("mouse", kind, c, rw))
        elif r < 0.86:
            # several keys in one write: they are handled in one pass of the event loop, before the next redraw
            k = rng.randint(1, 6)
            keys = rng.choice([["F3"] + ["Down"] * k + ["Enter"], ["Down"] * k + ["Enter"], ["Up"] * k + ["Enter"], ["F3", "Down", "Enter", "F3", "Enter"],
                               ["Tab"] * k, ["-"] * k + ["+"] * k, ["F3"] + ["Down"] * k + ["F1", "Enter"], [rng.choice(KEYNAMES) for _ in range(k)]])
            ev.append(("burst", ",".join(keys)))
        elif r < 0.875:
            # a key held down (auto-repeat): hundreds of zoom / pan / selection steps in one direction
            ev.append(("repeat", rng.choice(["+", "+", "-", "-", "Up", "Left", "Down", "Tab"]), rng.choice([40, 140, 300])))
        elif r < 0.89:
            # the pointer moving steadily across the window (or a wheel being spun): events a few
            # milliseconds apart for most of a second, so the event loop never sees a quiet 10 ms
            ev.append(("stream", rng.choice(["move", "drag", "scrollup", "scrolldown"]), rng.choice([150, 300])))
        elif r < 0.92:
            ev.append(("resize",) + rng.choice(SIZES))
        elif r < 0.97:
            frag = rng.choice([b"\x1b[", b"\x1bO", b"\x1b[<", b"\x1b[<0;", b"\x1b[1;", b"\x1b[200~", b"\x00", b"\xff\xfe", b"\x1b\x1b", bytes(rng.getrandbits(8) for _ in range(rng.randint(1, 12))).replace(b"q", b"x").replace(b"\x03", b"x").replace(b"\x11", b"x")])  # not q, Ctrl-C, Ctrl-Q (= 'q' with a modifier): those are quit requests
            ev.append(("raw", frag))
        else:
            ev.append(("wait", rng.choice([0.05, 0.3, 1.1])))
    return ev


def describe(ev):
    if ev[0] == "raw":
        return f"raw:{ev[1]!r}"
    return ":".join(str(x) for x in ev)


def check_exit(col, sess, how, cls, inp, again=None):
    rc = sess.p.wait_exit(20)
    diffs = procs.termios_diff(sess.p.termios_before, sess.p.termios_now())
    loc = sess.panic_location()
    if rc is None:
        col.add("C17", f"C17|no_exit_after_quit|{cls}", f"radar still running 20 s after {how}", inp)
        if again is not None:
            # (the listed finding says the key is only held back until the next input arrives: if
            # the client does not leave then either, that is something else)
            sess.p.write(again)
            rc = sess.p.wait_exit(10)
            if rc != 0:
                col.add("C17", f"C17|no_exit_after_second_quit|{cls}", f"radar did not end with status 0 (status {rc}) after a second quit key either", inp)
        return
    if rc != 0:
        col.add("C17", f"C17|exit_status_after_quit|{cls}", f"exit status {rc} (panic at {loc}) after {how}", inp)
    elif loc:
        # a panic message although the client ran until the quit request and exited with status 0:
        # a helper thread ended (the gpsd thread on a failed handshake). The property is about the
        # client, which kept running: counted, not a finding (DESIGN 3)
        col.count("helper_thread_panic_messages")
        col.cls(f"helper_thread_panic|{loc}")
    if diffs:
        col.add("C17", f"C17|termios_not_restored|{cls}", f"terminal flags differ from before the start: {diffs} (after {how})", inp)
    scr = sess.p.screen
    if not scr.cursor_visible or scr.mouse_reporting():
        col.add("C17", f"C17|terminal_modes_not_restored|{cls}", f"cursor visible: {scr.cursor_visible}; mouse reporting modes still on: {scr.mouse_reporting()} (after {how})", inp)


SCALES = ["0.01", "-0.12", "1.5", "0", "100", "-3", "1e308", "nan", "-1e308", "1e-308", "inf", "-inf"]
LOCATION_NAMES = ["home", "x", "Flughafen München", "Zürich", "Düsseldorf-Lohausen Ä", "東京国際空港 羽田", "Αθήνα Ελευθέριος Βενιζέλος", "ñ" * 9, "é" + "a" * 11 + "é",
                  "a" * 11 + "é", "a" * 60, "🛬 strip 🛫", "Łódź Lublinek Łł", "e\u0301e\u0301e\u0301e\u0301e\u0301e\u0301e\u0301", "tab\there", "-", "1"]


def idx_of(tag):
    t = tag.rsplit("#", 1)[-1]
    return int(t) if t.isdigit() else 0


def run_session(col, binpath, rng, tag, scratch, n_events):
    lat, lon = rng.choice([(52.0, 4.0), (0.0, 0.0), (-33.9, 151.2), (89.0, 0.0), (40.0, 179.9)])
    # the command line accepts any number as receiver position: one session in eight gets a
    # non-finite or out-of-range one (the traffic is then placed around 52 N 4 E)
    rx_lat, rx_lon = lat, lon
    if rng.random() < 0.125:
        rx_lat, rx_lon = rng.choice([(float("nan"), 4.0), (52.0, float("nan")), (float("inf"), float("-inf")), (91.0, 181.0), (-1e300, 1e300)])
        lat, lon = 52.0, 4.0
    n_air = rng.choice([0, 0, 1, 3, 10, 40])
    traffic = rng.choice(["stopped", "running"])
    if idx_of(tag) % 9 == 4:
        traffic = "flood"  # a stream without line ends, a chunk every 4 ms, for the whole session
    opts = []
    # expiry thresholds from "at once" to "never" (the largest values a u64 holds)
    ft = rng.choice([None, None, 0, 1, 0, 1, 18446744073709551615, 9223372036854775808, 4294967296])
    if ft is not None:
        opts += ["--filter-time", str(ft)]
    for o in ["--touchscreen", "--disable-lat-long", "--disable-callsign", "--disable-icao", "--disable-heading", "--disable-track", "--limit-parsing", "--retry-tcp"]:
        if rng.random() < 0.25:
            opts.append(o)
    if rng.random() < 0.3:
        # names are free text: long ones, multi-byte characters straddling any byte offset, wide glyphs
        names = rng.sample(LOCATION_NAMES, 3)
        opts += ["--locations", "(%s,%.2f,%.2f)" % (names[0], lat + 0.1, lon - 0.1), "(%s,0,0)" % names[1], "(%s,%.3f,%.3f)" % (names[2], lat - 0.2, lon + 0.3)]
    idx = int(tag.split("#")[1]) if "#" in tag and tag.split("#")[1].isdigit() else 0
    if idx % 3 == 1:
        # any number is accepted as a scale: tiny, huge, zero, negative, not-a-number (every third
        # session, cycling through the list so that a quick run covers all of them)
        opts += ["--scale=" + SCALES[(idx // 3) % len(SCALES)]]
    if rng.random() < 0.25:
        # a valid airports file (drawn on Map and Coverage), with or without the time-zone filter
        csvp = os.path.join(scratch, f"airports-{tag.replace('#', '-')}.csv")
        with open(csvp, "w") as f:
            f.write("icao,iata,name,city,subd,country,elevation,lat,lon,tz\n")
            for k in range(rng.randint(0, 6)):
                f.write(f"{rng.choice(['K', 'É', 'Ω', 'KLONGICAOCODE'])}{k:03d},A{k:02d},{rng.choice(['Field', 'Flughafen München', '東京'])} {k},Town,ST,US,{100 + k}.0,{lat + rng.uniform(-1, 1):.4f},{lon + rng.uniform(-1, 1):.4f},{rng.choice(['America/Chicago', 'Europe/Amsterdam'])}\n")
        opts += ["--airports", csvp]
        if rng.random() < 0.5:
            opts += ["--airports-tz-filter", rng.choice(["America/Chicago", "Europe/Amsterdam,America/Chicago", "Nowhere"])]
    if rng.random() < 0.3:
        opts += ["--gpsd", "--gpsd-ip", GPSD_IP]  # served by the stand-in gpsd of this run (or nothing listens: the helper thread must fail quietly)
    rows, cols = rng.choice(SIZES[5:])
    lines = aircraft_lines(rng, n_air, lat, lon)
    # "any traffic": the feed also carries lines that are not frames (C16's malformed kinds)
    junk = [l for v in c16.MALFORMED.values() if v for l in v if len(l) < 200]
    plan = [("send", b"".join(lines) + b"".join(rng.sample(junk, 6)))] if lines else [("send", b"".join(rng.sample(junk, 4)))]
    if traffic == "running" and lines:
        # aircraft 0 keeps moving (its superseded positions become the track drawn on the map)
        la0, lo0 = enc.destination(lat, lon, 45.0, 20.0)
        for k in range(120):
            plan.append(("sleep", 0.1))
            plan.append(("send", rng.choice(lines) if k % 6 else rng.choice(junk)))
            la0, lo0 = enc.destination(la0, lo0, 90.0, 0.8)
            plan.append(("send", enc.line(enc.long_frame(17, 5, 0x4A0000, enc.me_airpos(11, 30000, la0, lo0, k % 2 == 1)))))
    if traffic == "flood":
        plan.append(("flood", 150.0))
    plan.append(("sleep", 120))
    events = gen_events(rng, n_events, rows, cols)
    # the quit request alone, or with further input right behind it in the same write (a key, Enter,
    # a mouse report): requested is requested
    quit_how = rng.choice(["q", "CtrlC", "q", "CtrlC", "q+Enter", "CtrlC+x", "q+F3", "q+mouse", "CtrlC+q", "resize+q", "resize+CtrlC"])
    cls = f"air={'0' if n_air == 0 else 'some'}|ft={ft}"
    inp = {"options": opts, "size": [rows, cols], "aircraft": n_air, "traffic": traffic, "events": [describe(e) for e in events], "quit": quit_how, "tag": tag}
    sess = session.RadarSession(binpath, plan, lat=rx_lat, lon=rx_lon, opts=opts, rows=rows, cols=cols, scratch=scratch)
    try:
        sess.wait_connected()
        sess.p.pump(0.6)
        col.count("sessions")
        col.cls(f"session|{cls}|{traffic}|touch={'--touchscreen' in opts}")
        for k, ev in enumerate(events):
            if ev[0] == "key":
                sess.p.write(procs.KEYS[ev[1]])
            elif ev[0] == "mouse":
                sess.p.write(procs.mouse(ev[1], ev[2], ev[3]))
            elif ev[0] == "resize":
                sess.p.resize(ev[1], ev[2])
            elif ev[0] == "raw":
                sess.p.write(ev[1])
            elif ev[0] == "burst":
                sess.p.write(b"".join(procs.KEYS[k] for k in ev[1].split(",")))
            elif ev[0] == "repeat":
                # written in chunks, the way a terminal delivers auto-repeat
                for i in range(0, ev[2], 20):
                    sess.p.write(procs.KEYS[ev[1]] * min(20, ev[2] - i))
                    sess.p.pump(0.01)
            elif ev[0] == "stream":
                c0, r0 = rng.randrange(2, max(3, cols - 2)), rng.randrange(2, max(3, rows - 2))
                if ev[1] == "drag":
                    sess.p.write(procs.mouse("down", c0, r0))
                for i in range(ev[2]):
                    sess.p.write(procs.mouse(ev[1], (c0 + i) % max(1, cols), (r0 + i // 7) % max(1, rows)))
                    sess.p.pump(0.003)
                if ev[1] == "drag":
                    sess.p.write(procs.mouse("up", c0, r0))
            elif ev[0] == "wait":
                sess.p.pump(ev[1])
            sess.p.pump(rng.choice([0.02, 0.03, 0.08]))
            col.count("events")
            col.cls(f"event|{ev[0]}" + (f"|{ev[1]}" if ev[0] in ("key", "mouse", "repeat", "stream") else ""))
            if not sess.p.alive():
                sess.p.pump(0.3)
                loc = sess.panic_location()
                inp2 = dict(inp, died_after_event=k, last_events=[describe(e) for e in events[max(0, k - 6):k + 1]])
                col.add("C17", f"C17|terminated_before_quit|{loc or ('status ' + str(sess.p.p.returncode))}", f"radar exited with status {sess.p.p.returncode} (panic at {loc}) after event #{k} {describe(ev)}; no quit was requested; recent events {inp2['last_events']}", inp2)
                return
        # let it run a moment (expiry under the selection), then quit
        sess.p.pump(rng.choice([0.1, 1.3]))
        if not sess.p.alive():
            loc = sess.panic_location()
            col.add("C17", f"C17|terminated_before_quit|{loc or ('status ' + str(sess.p.p.returncode))}", f"radar exited with status {sess.p.p.returncode} (panic at {loc}) while idle after the event sequence", inp)
            return
        # Broken escape fragments are line noise, not operator actions; what is still pending in the
        # input parser (an unterminated mouse report, CSI or bracketed paste) would swallow the quit
        # key, so terminate it first: 'M' ends a mouse report, ESC[201~ ends a paste, 'x' ends a CSI.
        sess.p.write(b"M")
        sess.p.pump(0.1)
        sess.p.write(b"\x1b[201~")
        sess.p.pump(0.1)
        sess.p.write(b"x")
        sess.p.pump(0.1)
        # ... and 'c' ends a pending "ESC [ ?" (device-attributes / keyboard-flags reply), which the
        # terminal library keeps collecting until it sees 'c' or 'u'
        sess.p.write(b"c")
        sess.p.pump(0.15)
        if quit_how.startswith("resize+"):
            # a burst of window-size changes and the quit key a few milliseconds behind it
            for sz in ((30, 100), (1, 1), (rows, cols)):
                sess.p.resize(*sz)
                time.sleep(0.002)
            sess.send_raw(procs.KEYS[quit_how.split("+")[1]], f"quit:{quit_how}")
        elif "+" in quit_how:
            first, then = quit_how.split("+")
            tail = {"Enter": procs.KEYS["Enter"], "x": b"x", "F3": procs.KEYS["F3"], "mouse": procs.mouse("down", 5, 5) + procs.mouse("up", 5, 5), "q": b"q"}[then]
            sess.send_raw(procs.KEYS[first] + tail, f"quit:{quit_how}")
        else:
            sess.key(quit_how)
        if quit_how.startswith("resize+"):
            check_exit(col, sess, f"'{quit_how}' (the quit key 2 ms behind a burst of window-size changes)", "quit_right_behind_resize", inp, again=procs.KEYS[quit_how.split("+")[1]])
        else:
            check_exit(col, sess, f"'{quit_how}'", cls, inp)
        col.count("quits_checked")
    finally:
        sess.close()


def click_sweep(col, binpath, rng, tag, scratch):
    """Every cell an operator can hit, systematically: a left click (press + release) on every row of
    the window in the columns of the touchscreen buttons, of the tab bar and of the map, on each tab,
    with and without --touchscreen, at terminal heights where the three buttons are and are not
    equally high. The random sessions hit a given border row rarely; this one hits each once."""
    i = idx_of(tag)
    rows, cols = [(24, 100), (26, 100), (31, 80), (25, 60), (50, 150), (12, 40), (27, 100), (40, 132)][i % 8]
    opts = (["--touchscreen"] if i % 4 != 3 else []) + (["--disable-heading"] if i % 2 else [])
    lines = aircraft_lines(rng, 3, 52.0, 4.0)
    sess = session.RadarSession(binpath, [("send", b"".join(lines)), ("sleep", 200)], lat=52.0, lon=4.0, opts=opts, rows=rows, cols=cols, scratch=scratch)
    inp = {"scenario": "click sweep", "options": opts, "size": [rows, cols], "tag": tag}
    try:
        sess.wait_connected()
        sess.p.pump(0.5)
        col.count("sessions")
        col.cls(f"session|click_sweep|touch={'--touchscreen' in opts}")
        columns = sorted({0, 1, 2, 5, 9, 10, 11, 12, 21, 37, 44, 49, cols // 2, cols - 2, cols - 1})
        for tab in ("F1", "F2", "F3") if i % 2 == 0 else ("F1", "F4", "F5", "F2"):
            for r in range(rows):
                for c in columns:
                    if c >= cols:
                        continue
                    # a click may select another tab (the tab bar): go back to the one under test
                    sess.p.write(procs.KEYS[tab] + procs.mouse("down", c, r) + procs.mouse("up", c, r))
                    sess.p.pump(0.004)
                    col.count("events", 2)
                sess.p.pump(0.03)
                if not sess.p.alive():
                    sess.p.pump(0.3)
                    loc = sess.panic_location()
                    col.add("C17", f"C17|terminated_before_quit|{loc or ('status ' + str(sess.p.p.returncode))}", f"radar exited with status {sess.p.p.returncode} (panic at {loc}) after left clicks on row {r} (0-based) of a {rows}x{cols} terminal, tab {tab}, options {opts}; no quit was requested", dict(inp, row=r, tab=tab))
                    return
            col.cls(f"event|click_sweep|{tab}")
        how = rng.choice(["q", "CtrlC"])
        sess.key(how)
        check_exit(col, sess, f"'{how}'", "click_sweep", inp)
        col.count("quits_checked")
    finally:
        sess.close()


def quit_while_waiting(col, binpath, rng, tag, scratch):
    how = rng.choice(["q", "CtrlC"])
    pre = rng.choice([[], ["F3", "Down"], ["x", "Tab"]])
    sess = session.RadarSession(binpath, [], opts=rng.choice([[], ["--retry-tcp"], ["--touchscreen"]]), rows=24, cols=80, scratch=scratch, listen=False)
    inp = {"scenario": "quit while 'Waiting for connection'", "keys": pre + [how], "argv": sess.argv}
    try:
        sess.p.pump(rng.choice([1.0, 4.0]))
        if not sess.p.alive():
            col.add("C17", "C17|terminated_before_quit|while_waiting", f"radar exited with status {sess.p.p.returncode} (panic {sess.panic_location()}) while waiting for a connection", inp)
            return
        for k in pre:
            sess.key(k)
            sess.p.pump(0.1)
        sess.key(how)
        col.count("sessions")
        col.cls("session|waiting_for_connection")
        check_exit(col, sess, f"'{how}' while waiting for a connection", "while_waiting", inp)
        col.count("quits_checked")
    finally:
        sess.close()


def typeahead_quit(col, binpath, rng, tag, scratch):
    """Keys typed while radar still waits for its first connection - and the server comes up in the
    same moment: whichever part of the client reads them, a quit request among them is honoured."""
    import socket, threading
    i = idx_of(tag)
    sess = session.RadarSession(binpath, [], opts=[[], ["--retry-tcp"], ["--touchscreen"]][i % 3], rows=30, cols=100, scratch=scratch, listen=False)
    ahead = [["F3"], ["x"], ["F3", "Down", "F1"], ["Tab"], []][i % 5]
    how = ["q", "CtrlC"][i % 2]
    inp = {"scenario": "keys typed while waiting for the first connection, the server comes up at the same time", "keys": ahead + [how], "argv": sess.argv, "tag": tag}
    ls = None
    conns = []
    try:
        sess.p.pump(rng.choice([1.2, 2.5]))
        if not sess.p.alive():
            col.add("C17", "C17|terminated_before_quit|while_waiting", f"radar exited with status {sess.p.p.returncode} (panic {sess.panic_location()}) while waiting for a connection", inp)
            return
        ls = sess.srv.sock  # bound since the start of the session, listening from now on
        ls.listen(4)
        ls.settimeout(0.2)
        stop = threading.Event()
        def serve():
            while not stop.is_set():
                try:
                    c, _ = ls.accept()
                    conns.append(c)
                    c.sendall(b"".join(aircraft_lines(random.Random(i), 2, 52.0, 4.0)))
                except OSError:
                    pass
        t = threading.Thread(target=serve, daemon=True)
        t.start()
        # everything in one write, as type-ahead arrives
        sess.send_raw(b"".join(procs.KEYS[k] for k in ahead + [how]), "typeahead:" + ",".join(ahead + [how]))
        col.count("sessions")
        col.cls("session|typeahead_first_connection")
        check_exit(col, sess, f"'{how}' typed (after {ahead}) while the first connection was being made", "typeahead", inp)
        col.count("quits_checked")
        stop.set()
    finally:
        for c in conns:
            try:
                c.close()
            except OSError:
                pass
        sess.close()


def crowd_quit(col, binpath, rng, tag, scratch, n_air):
    """Hundreds (thorough: thousands) of aircraft at once, keys and resizes while they arrive: every
    turn of the client's loop draws all of them - it has to stay an interactive program (a tab
    switch shows up, quit is honoured within the usual 20 s) however long the list is."""
    lines = []
    for k in range(n_air):
        addr = 0x100000 + k * 7
        la, lo = enc.destination(52.0, 4.0, rng.uniform(0, 360), rng.uniform(1, 400))
        lines.append(enc.line(enc.long_frame(17, 5, addr, enc.me_ident(4, 0, "M%05d" % k))))
        lines.append(enc.line(enc.long_frame(17, 5, addr, enc.me_airpos(11, 1000 + 25 * (k % 1500), la, lo, False))))
        lines.append(enc.line(enc.long_frame(17, 5, addr, enc.me_airpos(11, 1000 + 25 * (k % 1500), la, lo, True))))
    sess = session.RadarSession(binpath, [("send", b"".join(lines)), ("mark", "feed_done"), ("sleep", 600)], opts=["--filter-time", "100000"] + (["--touchscreen"] if idx_of(tag) % 2 else []), rows=50, cols=160, scratch=scratch)
    inp = {"scenario": "crowd", "aircraft": n_air, "tag": tag}
    try:
        sess.wait_connected()
        col.count("sessions")
        col.cls("session|crowd")
        t_end = time.monotonic() + 60 + n_air / 8.0
        k = 0
        while time.monotonic() < t_end and sess.tab_title_count() != n_air:
            sess.p.pump(0.5)
            k += 1
            if k % 6 == 0:
                sess.key(rng.choice(["F1", "F2", "F3", "F4", "Down", "Up", "+", "-", "Enter"]))
                col.count("events")
            if k % 25 == 0:
                sess.p.resize(*rng.choice([(50, 160), (24, 80), (60, 200)]))
                col.count("events")
            if not sess.p.alive():
                loc = sess.panic_location()
                col.add("C17", f"C17|terminated_before_quit|{loc or ('status ' + str(sess.p.p.returncode))}", f"radar exited with status {sess.p.p.returncode} (panic at {loc}) while {n_air} aircraft were arriving; no quit was requested", inp)
                return
        if sess.tab_title_count() != n_air:
            raise Inconclusive(f"only {sess.tab_title_count()} of {n_air} aircraft after {60 + n_air / 8.0:.0f} s")
        how = rng.choice(["q", "CtrlC"])
        sess.key(how)
        check_exit(col, sess, f"'{how}' with {n_air} aircraft tracked", "crowd", inp)
        col.count("quits_checked")
    finally:
        sess.close()


def quit_while_connect_blocks(col, binpath, rng, tag, scratch):
    """The server's host is up but nothing accepts (the accept queue is full, further SYNs get no
    answer): radar's connection attempt is pending when the operator quits - quit has to be honoured
    within the usual 20 s, not when the operating system gives up on the SYN (minutes)."""
    import socket
    ls = socket.socket(socket.AF_INET, socket.SOCK_STREAM)
    ls.setsockopt(socket.SOL_SOCKET, socket.SO_REUSEADDR, 1)
    ls.bind(("127.0.0.1", 0))
    ls.listen(0)
    port = ls.getsockname()[1]
    dummies = []
    for _ in range(8):
        d = socket.socket(socket.AF_INET, socket.SOCK_STREAM)
        d.setblocking(False)
        try:
            d.connect(("127.0.0.1", port))
        except (BlockingIOError, OSError):
            pass
        dummies.append(d)
    time.sleep(0.3)
    i = idx_of(tag)
    how = ["q", "CtrlC"][i % 2]
    sess = session.RadarSession(binpath, [], opts=[[], ["--retry-tcp"]][i % 2], rows=24, cols=80, scratch=scratch, listen=False)
    # point radar at the saturated port instead of the (closed) port of the session's own server
    sess.p.kill()
    argv = [x if x != str(sess.srv.port) else str(port) for x in sess.argv]
    sess.p = procs.PtyProc(argv, rows=24, cols=80, cwd=sess.scratch)
    inp = {"scenario": "quit while the connection attempt gets no answer (accept queue of the server full)", "keys": [how], "argv": argv, "tag": tag}
    try:
        sess.p.pump(rng.choice([1.5, 3.0]))
        if not sess.p.alive():
            raise Inconclusive("radar ended by itself while the server did not answer")
        sess.key(how)
        col.count("sessions")
        col.cls("session|connect_pending")
        check_exit(col, sess, f"'{how}' while the connection attempt was pending", "connect_pending", inp)
        col.count("quits_checked")
    finally:
        for d in dummies:
            d.close()
        ls.close()
        sess.close()


def quit_on_reconnect_screen(col, binpath, rng, tag, scratch):
    """--retry-tcp: the feed disappears and stays away; operator events and quit on the waiting screen."""
    how = rng.choice(["q", "CtrlC"])
    lat, lon = 52.0, 4.0
    lines = aircraft_lines(rng, rng.choice([0, 2, 5]), lat, lon)
    # the server either goes away for good, or keeps accepting and dropping every connection at once
    flapping = tag.rsplit("#", 1)[-1].isdigit() and int(tag.rsplit("#", 1)[-1]) % 2 == 1
    plan = ([("send", b"".join(lines))] if lines else []) + [("sleep", 1.0), ("close",), ("mark", "closed")] + ([("flap", 60.0)] if flapping else [("sleep", 120)])
    sess = session.RadarSession(binpath, plan, lat=lat, lon=lon, opts=["--retry-tcp"] + rng.choice([[], ["--touchscreen"]]), rows=30, cols=100, scratch=scratch)
    inp = {"scenario": "quit while waiting for a reconnect (--retry-tcp, " + ("server accepts and drops every connection" if flapping else "server gone") + ")", "quit": how, "tag": tag}
    try:
        sess.wait_connected()
        end = time.monotonic() + 30
        while time.monotonic() < end and not sess.srv.marked("closed"):
            sess.p.pump(0.1)
        if not flapping:
            # nothing listens any more: every reconnect attempt is refused. The port stays bound (a
            # socket that does not listen), or another session's server could be given it while this
            # radar still knocks
            import socket
            port = sess.srv.port
            sess.srv.sock.close()
            hold = socket.socket(socket.AF_INET, socket.SOCK_STREAM)
            hold.setsockopt(socket.SOL_SOCKET, socket.SO_REUSEADDR, 1)
            try:
                hold.bind(("127.0.0.1", port))
                sess.srv.sock = hold
            except OSError:
                hold.close()
        sess.p.pump(rng.choice([1.5, 4.5]))  # hundreds of refused attempts
        if not sess.p.alive():
            col.add("C17", f"C17|terminated_before_quit|reconnect_wait|{sess.panic_location()}", f"with --retry-tcp radar exited (status {sess.p.p.returncode}) when the server went away", inp)
            return
        for k in rng.choice([[], ["F3", "Down", "Enter"], ["Tab", "x"], ["F2"]]):
            sess.key(k)
            sess.p.pump(0.1)
        sess.key(how)
        col.count("sessions")
        col.cls("session|waiting_for_reconnect")
        check_exit(col, sess, f"'{how}' while waiting for a reconnect", "reconnect_wait", inp)
        col.count("quits_checked")
    finally:
        sess.close()


def quit_after_reconnect(col, binpath, rng, tag, scratch):
    """--retry-tcp: the feed is lost, comes back, then goes silent; keys must still be handled and quit must work."""
    how = rng.choice(["q", "CtrlC"])
    lines = aircraft_lines(rng, 3, 52.0, 4.0)
    plan = [("send", b"".join(lines)), ("sleep", 1.0), ("close",), ("sleep", rng.choice([0.2, 1.0])), ("accept", 25.0), ("send", b"".join(lines[:4])), ("mark", "second_feed"), ("sleep", 60)]
    sess = session.RadarSession(binpath, plan, lat=52.0, lon=4.0, opts=["--retry-tcp"] + rng.choice([[], ["--touchscreen"], ["--filter-time", "1"]]), rows=30, cols=100, scratch=scratch)
    inp = {"scenario": "reconnected, then the feed is silent", "argv": sess.argv, "quit": how, "tag": tag}
    try:
        sess.wait_connected()
        end = time.monotonic() + 45
        while time.monotonic() < end and not sess.srv.marked("second_feed"):
            sess.p.pump(0.1)
            if not sess.p.alive():
                col.add("C17", f"C17|terminated_before_quit|reconnect|{sess.panic_location()}", f"radar exited (status {sess.p.p.returncode}) around a reconnect", inp)
                return
        if not sess.srv.marked("second_feed"):
            raise Inconclusive("no second connection")
        sess.p.pump(1.5)  # silence
        for k in rng.choice([["F3", "Down"], ["F4"], ["Tab", "Tab"], []]):
            sess.key(k)
            sess.p.pump(0.1)
        col.count("sessions")
        col.cls("session|reconnected_then_silent")
        sess.key(how)
        check_exit(col, sess, f"'{how}' on a silent feed after a reconnect", "reconnected_silent", inp)
        col.count("quits_checked")
    finally:
        sess.close()


CLI_CASES = [
    ("locations_two_fields", ["--lat", "1", "--long", "1", "--locations", "(a,1.0)"]),
    ("locations_one_field", ["--lat", "1", "--long", "1", "--locations", "home"]),
    ("locations_empty", ["--lat", "1", "--long", "1", "--locations", ""]),
    ("locations_not_numbers", ["--lat", "1", "--long", "1", "--locations", "(a,b,c)"]),
    ("locations_two_numbers", ["--lat", "1", "--long", "1", "--locations", "(52.1,4.3)"]),
    ("locations_four_fields", ["--lat", "1", "--long", "1", "--locations", "(a,1,2,3,x)", "(b,c)"]),
    ("locations_only_commas", ["--lat", "1", "--long", "1", "--locations", ",,,"]),
    ("locations_parens", ["--lat", "1", "--long", "1", "--locations", "()"]),
    ("locations_nan_text", ["--lat", "1", "--long", "1", "--locations", "(x,1e999999x,--)"]),
    ("lat_not_number", ["--lat", "north", "--long", "1"]),
    ("lat_empty", ["--lat=", "--long", "1"]),
    ("filter_time_float", ["--lat", "1", "--long", "1", "--filter-time", "1.5"]),
    ("port_negative", ["--lat", "1", "--long", "1", "--port=-1"]),
    ("long_missing", ["--lat", "1"]),
    ("port_too_big", ["--lat", "1", "--long", "1", "--port", "70000"]),
    ("port_not_number", ["--lat", "1", "--long", "1", "--port", "http"]),
    ("host_not_ip", ["--lat", "1", "--long", "1", "--host", "not an ip"]),
    ("host_ipv6_loopback", ["--lat", "1", "--long", "1", "--host", "::1"]),
    ("host_ipv6_any", ["--lat", "1", "--long", "1", "--host", "::"]),
    ("host_ipv6_mapped", ["--lat", "1", "--long", "1", "--host", "::ffff:127.0.0.1"]),
    ("host_ipv6_link_local", ["--lat", "1", "--long", "1", "--host", "fe80::1"]),
    ("host_name", ["--lat", "1", "--long", "1", "--host", "localhost"]),
    ("host_empty", ["--lat", "1", "--long", "1", "--host", ""]),
    ("host_octet_too_big", ["--lat", "1", "--long", "1", "--host", "256.1.1.1"]),
    ("host_with_port", ["--lat", "1", "--long", "1", "--host", "127.0.0.1:30002"]),
    ("host_three_octets", ["--lat", "1", "--long", "1", "--host", "127.0.1"]),
    ("filter_time_too_big", ["--lat", "1", "--long", "1", "--filter-time", "18446744073709551616"]),
    ("max_range_empty", ["--lat", "1", "--long", "1", "--max-range="]),
    ("filter_time_negative", ["--lat", "1", "--long", "1", "--filter-time", "-1"]),
    ("scale_not_number", ["--lat", "1", "--long", "1", "--scale", "big"]),
    ("max_range_not_number", ["--lat", "1", "--long", "1", "--max-range", "far"]),
    ("unknown_flag", ["--lat", "1", "--long", "1", "--frobnicate"]),
    ("log_folder_is_a_file", ["--lat", "1", "--long", "1", "--log-folder", "@AFILE@"]),
    ("log_folder_below_a_file", ["--lat", "1", "--long", "1", "--log-folder", "@AFILE@/logs"]),
    ("airports_missing_file", ["--lat", "1", "--long", "1", "--airports", "/nonexistent/airports.csv"]),
    ("airports_not_csv", ["--lat", "1", "--long", "1", "--airports", "@BADCSV@"]),
] + [("airports_" + k, ["--lat", "1", "--long", "1", "--airports", "@CSV:" + k + "@"]) for k in (
    "bom", "crlf", "quotes", "empty_fields", "missing_columns", "non_numeric", "empty_file", "header_only", "huge", "nul_bytes", "latin1", "extreme_numbers", "no_header")]
HDR = "icao,iata,name,city,subd,country,elevation,lat,lon,tz\n"
ROW = "KAAA,AAA,Field A,Town,ST,US,597.0,40.1587,-89.335,America/Chicago\n"
CSV_FILES = {
    "bom": ("\ufeff" + HDR + ROW).encode(),
    "crlf": (HDR + ROW + ROW).replace("\n", "\r\n").encode(),
    "quotes": (HDR + 'KBBB,BBB,"Field, with comma","Town ""quoted""",ST,US,10.0,1.5,2.5,Europe/Amsterdam\n' + 'KCCC,CCC,"unterminated,Town,ST,US,10.0,1.5,2.5,Europe/Amsterdam\n').encode(),
    "empty_fields": (HDR + ",,,,,,,,,\n" + "KDDD,,,,,,,1.0,2.0,\n" + ROW).encode(),
    "missing_columns": (HDR + "KEEE,EEE,Field\n" + "KFFF\n" + "\n" + ROW + "KGGG,GGG,Field G,Town,ST,US,1.0,2.0,3.0,Europe/Amsterdam,extra,columns\n").encode(),
    "non_numeric": (HDR + "KHHH,HHH,Field H,Town,ST,US,high,north,west,America/Chicago\n" + "KIII,III,Field I,Town,ST,US,1.0,nan,inf,America/Chicago\n").encode(),
    "empty_file": b"",
    "header_only": HDR.encode(),
    "huge": (HDR + "".join("K%04d,A%02d,Field %d,Town,ST,US,%d.0,%.4f,%.4f,America/Chicago\n" % (k, k % 100, k, k, -89 + k * 0.035, -179 + k * 0.07) for k in range(5000))).encode(),
    "nul_bytes": (HDR + "KJ\x00J,JJJ,Fie\x00ld,Town,ST,US,1.0,2.0,3.0,America/Chicago\n").encode(),
    "latin1": (HDR + "KLLL,LLL,Flughafen M\xfcnchen,Town,ST,US,1.0,2.0,3.0,Europe/Berlin\n").encode("latin1"),
    "extreme_numbers": (HDR + "KMMM,MMM,Field M,Town,ST,US,1e308,91.0,-181.0,America/Chicago\n" + "KNNN,NNN,Field N,Town,ST,US,-1e308,-1e308,1e308,America/Chicago\n").encode(),
    "no_header": ROW.encode() * 3,
}


# values that are invalid for this client (its --host is an IPv4 address) but would be perfectly good
# for one that resolves names or speaks IPv6: a usage error or a normal run, never a crash
MAYBE_VALID = {"airports_bom", "airports_crlf", "airports_quotes", "airports_empty_fields", "airports_missing_columns", "airports_non_numeric", "airports_empty_file", "airports_header_only", "airports_huge", "airports_nul_bytes", "airports_latin1", "airports_extreme_numbers", "airports_no_header",
               "host_ipv6_loopback", "host_ipv6_any", "host_ipv6_mapped", "host_ipv6_link_local", "host_name", "host_with_port", "host_three_octets"}


def cli_case(col, binpath, name, args, scratch):
    """Invalid command-line values: the process must end by itself with a non-zero status and no panic."""
    bad = os.path.join(scratch, f"bad-{name}.csv")
    with open(bad, "w") as f:
        f.write("this,is,not\nan airports,file\n")
    args = [bad if x == "@BADCSV@" else x.replace("@AFILE@", bad) for x in args]
    for i, x in enumerate(args):
        if x.startswith("@CSV:"):
            path = os.path.join(scratch, f"csv-{name}.csv")
            with open(path, "wb") as f:
                f.write(CSV_FILES[x[5:-1]])
            args[i] = path
    import tempfile, shutil
    srv = procs.FeedServer([("sleep", 30)])
    srv.start()
    work = tempfile.mkdtemp(prefix="cli-", dir=scratch)
    argv = [os.path.join(binpath, "radar")] + ([] if "--log-folder" in args else ["--log-folder", os.path.join(work, "logs")])
    if "--port" not in args:
        argv += ["--port", str(srv.port)]
    argv += args
    p = procs.PtyProc(argv, rows=24, cols=80, cwd=work)
    inp = {"argv": argv[1:], "case": name}
    try:
        rc = p.wait_exit(12)
        text = p.raw.decode("utf-8", "replace")
        m = session.PANIC_RE.search(text)
        col.count("cli_cases")
        col.cls(f"cli|{name}")
        diffs = procs.termios_diff(p.termios_before, p.termios_now())
        if rc is None and name in MAYBE_VALID:
            # a value a client may well support (a host name, an IPv6 address): then it runs, and
            # quits like any other session
            p.write(b"q")
            rc = p.wait_exit(15)
            text = p.raw.decode("utf-8", "replace")
            m = session.PANIC_RE.search(text)
            diffs = procs.termios_diff(p.termios_before, p.termios_now())
            if rc != 0 or m:
                col.add("C17", f"C17|cli_value_accepted_then_unclean_exit|{name}", f"radar ran with this value; after 'q' exit status {rc}, panic at {m.group(1) if m else None}", inp)
        elif rc is None:
            col.add("C17", f"C17|cli_invalid_value_accepted|{name}", "radar keeps running with an invalid command-line value instead of reporting a usage error", inp)
        elif m or rc == 101 or rc < 0:
            col.add("C17", f"C17|cli_invalid_value_crashes|{name}", f"exit status {rc}, panic at {m.group(1) if m else None}: {text[-300:]!r}", inp)
        elif rc == 0:
            col.add("C17", f"C17|cli_invalid_value_accepted|{name}", "exit status 0 for an invalid command-line value", inp)
        if rc is not None and (diffs or not p.screen.cursor_visible or p.screen.mouse_reporting()):
            col.add("C17", f"C17|cli_error_leaves_terminal_changed|{name}", f"after the error exit: termios flags changed {diffs}, cursor visible {p.screen.cursor_visible}, mouse modes {p.screen.mouse_reporting()}", inp)
    finally:
        p.kill()
        srv.shutdown()
        shutil.rmtree(work, ignore_errors=True)


def main(a, lcol, col, run_all, scratch, START):
    import vlib
    thorough = a.tier == "thorough"
    n_sessions = 3000 if thorough else 56
    jobs = []
    for i in range(n_sessions):
        n_events = [10, 40, 120, 300][i % 4] if thorough else [10, 40, 90, 150][i % 4]
        jobs.append((f"session#{i}", lambda rng, i=i, n=n_events: run_session(lcol, a.bin, rng, f"session#{i}", scratch, n)))
    for i in range(24 if thorough else 4):
        jobs.append((f"waiting#{i}", lambda rng, i=i: quit_while_waiting(lcol, a.bin, rng, f"waiting#{i}", scratch)))
    for i in range(16 if thorough else 4):
        jobs.append((f"reconnect#{i}", lambda rng, i=i: quit_on_reconnect_screen(lcol, a.bin, rng, f"reconnect#{i}", scratch)))
    for i in range(12 if thorough else 3):
        jobs.append((f"reconnected#{i}", lambda rng, i=i: quit_after_reconnect(lcol, a.bin, rng, f"reconnected#{i}", scratch)))
    for i, n_air in enumerate([2500, 1200, 600] if thorough else [500]):
        jobs.insert(0, (f"crowd#{i}", lambda rng, i=i, n_air=n_air: crowd_quit(lcol, a.bin, rng, f"crowd#{i}", scratch, n_air)))
    for i in range(8 if thorough else 2):
        jobs.insert(0, (f"connectpending#{i}", lambda rng, i=i: quit_while_connect_blocks(lcol, a.bin, rng, f"connectpending#{i}", scratch)))
    for i in range(30 if thorough else 6):
        jobs.append((f"typeahead#{i}", lambda rng, i=i: typeahead_quit(lcol, a.bin, rng, f"typeahead#{i}", scratch)))
    for i in range(32 if thorough else 8):
        jobs.insert(0, (f"sweep#{i}", lambda rng, i=i: click_sweep(lcol, a.bin, rng, f"sweep#{i}", scratch)))
    for name, args in CLI_CASES:
        jobs.append((f"cli/{name}", lambda rng, name=name, args=args: cli_case(lcol, a.bin, name, args, scratch)))
    if a.replay:
        import json
        r = json.load(open(a.replay))["input"]
        if "case" in r:
            jobs = [(f"cli/{r['case']}", lambda rng: cli_case(lcol, a.bin, r["case"], dict(CLI_CASES)[r["case"]], scratch))]
        elif "tag" in r:
            t = r["tag"]
            i = int(t.split("#")[1])
            n_events = len(r.get("events", []))
            jobs = [(t, lambda rng: run_session(lcol, a.bin, rng, t, scratch, n_events))]
            if t.startswith("sweep"):
                jobs = [(t, lambda rng: click_sweep(lcol, a.bin, rng, t, scratch))]
    # a gpsd stand-in for the sessions started with --gpsd (the others never connect to it)
    # (own loopback address per run - the port is fixed in radar, the address is an option)
    global GPSD_IP
    GPSD_IP = "127.%d.%d.%d" % (random.Random(f"{a.seed}/{os.getpid()}").randrange(2, 250), os.getpid() % 250, 1 + a.seed % 250)
    gpsd = procs.FakeGpsd(ip=GPSD_IP)
    gpsd.start()
    try:
        run_all(jobs)
    finally:
        gpsd.stop = True
    col.counters["gpsd_connections_served"] = gpsd.connections
    ev = col.counters.get("events", 0) + col.counters.get("cli_cases", 0) + col.counters.get("quits_checked", 0)
    col.sample({"session": "40 aircraft, traffic running, --filter-time 1, 150 events", "events": ["key:F3", "key:Down", "mouse:drag:17:9", "resize:1:1", "raw:b'\\x1b[<'", "key:Enter"], "then": "q -> exit status, termios, cursor/mouse modes"})
    return vlib.finish(col, "C17", a.tier, a.seed, "exploration",
        "radar on a pseudo-terminal: seeded random sequences (10-300 events) over keys (F1-F5, Tab, l i h t n, - +, arrows, Enter, others), SGR mouse reports (down/up/drag/scroll/right/move at tab hit boxes, touchscreen buttons, anywhere, outside the window), held keys (40-300 repeats), steady pointer streams (150-300 reports a few ms apart), resizes (1x1 ... 300x100) and raw bytes / broken escape sequences, x tracked set 0/1/3/10/40 x traffic stopped/running x --filter-time default/0/1 x option subsets (with --gpsd a stand-in gpsd on port 2947 answers: periodic reports, one report then silence, a non-JSON line, a hang-up, reports without a fix, a 2 MB line and a line that never ends, a close in the middle of a line, JSON of the wrong shape / non-finite and out-of-range coordinates, a byte at a time); process must stay alive until quit, then exit 0 with termios and cursor/mouse modes restored; quit while 'Waiting for connection', on the reconnect screen, and on a silent feed after a successful reconnect; 49 invalid or unusual command-line values (13 shapes of --airports files and 7 --host forms among them: a usage error or a normal run) must never crash; distinct_nontrivial = distinct (event kind/key, session class, CLI case) cells exercised",
        ["the terminal is a pty with a minimal VT model; 'as it found it' = termios flags equal, cursor visible, mouse reporting modes off", "exit deadlines (20 s) are generous; a process that never exits after quit is a violation, a driver that cannot connect is inconclusive"],
        a.verif, START, ev, len(col.classes), min_evaluations=50)
