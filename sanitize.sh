#!/usr/bin/env bash
# Sanitizer tiers of the thorough C01 / C19 checks: the vsan workload under Miri (Tree Borrows),
# AddressSanitizer and valgrind memcheck. A report of any of them is a violation; tool trouble
# (does not build, killed by the watchdog) is inconclusive. Results are merged into the evidence file.
#   sanitize.sh <C01|C19> <repo> <seed>
set -u
ID="$1"; REPO="${2:-/repo}"; SEED="${3:-1}"
HERE="$(cd "$(dirname "$0")" && pwd)"; H="$HERE/harness"
HW="${VERIF_HW:-$H}"; TGT="${VERIF_TGT:-$H/target}"; OUT="${VERIF_OUT:-$HERE}"
SUF="$(basename "$TGT" | sed 's/^target//')"
export CARGO_NET_OFFLINE=true CARGO_TERM_COLOR=never
MODE=frames; [ "$ID" = C19 ] && MODE=reader
W="$H/run/san-$ID$SUF"; rm -rf "$W"; mkdir -p "$W" "$OUT/replay/$ID"
N=16
rc_all=0
note() { echo "$1" >> "$W/summary.txt"; echo "$1"; }

# ---------------- Miri
MIRI_STRIDE=2; [ "$MODE" = reader ] && MIRI_STRIDE=12
if [ "${VERIF_SKIP_MIRI:-0}" != 1 ]; then
  export MIRIFLAGS="-Zmiri-tree-borrows -Zmiri-permissive-provenance -Zmiri-disable-isolation"
  if ( cd "$HW" && cargo +nightly miri run --offline -p vsan --target-dir "$H/target-miri$SUF" -- "$MODE" "$SEED" 0 100000 1 ) > "$W/miri-build.log" 2>&1; then
    for s in $(seq 0 $((N-1))); do
      ( cd "$HW" && timeout 3600 cargo +nightly miri run --offline -p vsan --target-dir "$H/target-miri$SUF" -- "$MODE" "$SEED" "$s" "$N" 1 "$MIRI_STRIDE" ) > "$W/miri-$s.log" 2>&1 &
    done
    wait
    for s in $(seq 0 $((N-1))); do
      if grep -q "^vsan mode=" "$W/miri-$s.log"; then
        grep "^vsan mode=" "$W/miri-$s.log" | sed 's/^/miri: /' >> "$W/summary.txt"
        if grep -q "MISMATCH" "$W/miri-$s.log"; then cp "$W/miri-$s.log" "$OUT/replay/$ID/miri-$s.log"; echo "VIOLATION property=$ID replay=$OUT/replay/$ID/miri-$s.log"; echo "  signature: $ID|reader_differs_from_slice|miri"; rc_all=1; fi
      elif grep -qE "Undefined Behavior|error: .*(memory|leak|data race|alignment|uninitialized|out-of-bounds|dangling)" "$W/miri-$s.log"; then
        cp "$W/miri-$s.log" "$OUT/replay/$ID/miri-$s.log"
        echo "VIOLATION property=$ID replay=$OUT/replay/$ID/miri-$s.log"
        echo "  signature: $ID|miri_report|$(grep -m1 -E 'Undefined Behavior|^error' "$W/miri-$s.log" | cut -c1-120)"
        rc_all=1
      elif grep -q "panicked at" "$W/miri-$s.log"; then
        cp "$W/miri-$s.log" "$OUT/replay/$ID/miri-$s.log"
        echo "VIOLATION property=C01 replay=$OUT/replay/$ID/miri-$s.log"
        echo "  signature: C01|panic_under_miri|$(grep -m1 -o 'panicked at [^ ]*' "$W/miri-$s.log")"
        [ "$ID" = C01 ] && rc_all=1
      else
        note "INCONCLUSIVE property=$ID Miri shard $s did not finish (see $W/miri-$s.log)"
      fi
    done
  else
    note "INCONCLUSIVE property=$ID the Miri build of the workload failed (see $W/miri-build.log)"
  fi
fi

# ---------------- AddressSanitizer
if [ "${VERIF_SKIP_ASAN:-0}" != 1 ]; then
  if ( cd "$HW" && RUSTFLAGS="-Zsanitizer=address -Cforce-frame-pointers=yes" cargo +nightly build --release --offline -p vsan --target x86_64-unknown-linux-gnu --target-dir "$H/target-asan$SUF" ) > "$W/asan-build.log" 2>&1; then
    BIN="$H/target-asan$SUF/x86_64-unknown-linux-gnu/release/vsan"
    PER=120; [ "$MODE" = reader ] && PER=40
    for s in $(seq 0 $((N-1))); do
      ASAN_OPTIONS="halt_on_error=1:abort_on_error=0:exitcode=77:detect_leaks=1" timeout 3600 "$BIN" "$MODE" "$SEED" "$s" "$N" "$PER" > "$W/asan-$s.log" 2>&1 &
    done
    wait
    for s in $(seq 0 $((N-1))); do
      if grep -q "ERROR: AddressSanitizer\|ERROR: LeakSanitizer" "$W/asan-$s.log"; then
        cp "$W/asan-$s.log" "$OUT/replay/$ID/asan-$s.log"
        echo "VIOLATION property=$ID replay=$OUT/replay/$ID/asan-$s.log"
        echo "  signature: $ID|asan_report|$(grep -m1 'ERROR: ' "$W/asan-$s.log" | cut -c1-100)"
        rc_all=1
      elif grep -q "MISMATCH" "$W/asan-$s.log"; then
        cp "$W/asan-$s.log" "$OUT/replay/$ID/asan-$s.log"; echo "VIOLATION property=$ID replay=$OUT/replay/$ID/asan-$s.log"; echo "  signature: $ID|reader_differs_from_slice|asan"; rc_all=1
      elif grep -q "panicked at" "$W/asan-$s.log"; then
        cp "$W/asan-$s.log" "$OUT/replay/$ID/asan-$s.log"; echo "VIOLATION property=C01 replay=$OUT/replay/$ID/asan-$s.log"; echo "  signature: C01|panic_under_asan|$(grep -m1 -o 'panicked at [^ ]*' "$W/asan-$s.log")"; [ "$ID" = C01 ] && rc_all=1
      elif grep -q "^vsan mode=" "$W/asan-$s.log"; then
        grep "^vsan mode=" "$W/asan-$s.log" | sed 's/^/asan: /' >> "$W/summary.txt"
      else
        note "INCONCLUSIVE property=$ID ASan shard $s did not finish (see $W/asan-$s.log)"
      fi
    done
  else
    note "INCONCLUSIVE property=$ID the AddressSanitizer build failed (see $W/asan-build.log)"
  fi
fi

# ---------------- debug profile (debug assertions of deku / bitvec / std on): release vs debug can flip verdicts
if [ "${VERIF_SKIP_DEBUG:-0}" != 1 ]; then
  if ( cd "$HW" && cargo build --offline -p vsan --target-dir "$H/target-dbg$SUF" ) > "$W/dbg-build.log" 2>&1; then
    BIN="$H/target-dbg$SUF/debug/vsan"
    for s in $(seq 0 $((N-1))); do
      timeout 3600 "$BIN" "$MODE" "$SEED" "$s" "$N" 40 > "$W/dbg-$s.log" 2>&1 &
    done
    wait
    for s in $(seq 0 $((N-1))); do
      if grep -q "panicked at" "$W/dbg-$s.log"; then
        cp "$W/dbg-$s.log" "$OUT/replay/$ID/debug-$s.log"; echo "VIOLATION property=C01 replay=$OUT/replay/$ID/debug-$s.log"; echo "  signature: C01|panic_in_debug_profile|$(grep -m1 -o 'panicked at [^ ]*' "$W/dbg-$s.log")"; [ "$ID" = C01 ] && rc_all=1
      elif grep -q "MISMATCH" "$W/dbg-$s.log"; then
        cp "$W/dbg-$s.log" "$OUT/replay/$ID/debug-$s.log"; echo "VIOLATION property=$ID replay=$OUT/replay/$ID/debug-$s.log"; echo "  signature: $ID|reader_differs_from_slice|debug_profile"; rc_all=1
      elif grep -q "^vsan mode=" "$W/dbg-$s.log"; then
        grep "^vsan mode=" "$W/dbg-$s.log" | sed 's/^/debug: /' >> "$W/summary.txt"
      else
        note "INCONCLUSIVE property=$ID debug-profile shard $s did not finish (see $W/dbg-$s.log)"
      fi
    done
  else
    note "INCONCLUSIVE property=$ID the debug-profile build failed (see $W/dbg-build.log)"
  fi
fi

# ---------------- valgrind memcheck on the plain release build
if [ "${VERIF_SKIP_VALGRIND:-0}" != 1 ] && command -v valgrind >/dev/null; then
  BIN="$TGT/release/vsan"
  for s in $(seq 0 $((N-1))); do
    timeout 3600 valgrind --quiet --error-exitcode=78 --errors-for-leak-kinds=definite --leak-check=full "$BIN" "$MODE" "$SEED" "$s" "$N" 2 > "$W/vg-$s.log" 2>&1 &
  done
  wait
  for s in $(seq 0 $((N-1))); do
    if grep -q "^==[0-9]*== \(Invalid\|Conditional jump\|Use of uninit\|Syscall param\|.*definitely lost\|Mismatched\)" "$W/vg-$s.log"; then
      cp "$W/vg-$s.log" "$OUT/replay/$ID/valgrind-$s.log"
      echo "VIOLATION property=$ID replay=$OUT/replay/$ID/valgrind-$s.log"
      echo "  signature: $ID|memcheck_report|$(grep -m1 '^==[0-9]*== [A-Z]' "$W/vg-$s.log" | cut -c1-100)"
      rc_all=1
    elif grep -q "^vsan mode=" "$W/vg-$s.log"; then
      grep "^vsan mode=" "$W/vg-$s.log" | sed 's/^/memcheck: /' >> "$W/summary.txt"
    else
      note "INCONCLUSIVE property=$ID valgrind shard $s did not finish (see $W/vg-$s.log)"
    fi
  done
fi

python3 - "$OUT/evidence/$ID.json" "$W/summary.txt" "$rc_all" <<'PY'
import json, re, sys
path, summ, rc = sys.argv[1], sys.argv[2], int(sys.argv[3])
ev = json.load(open(path))
tot = {}
inconc = []
try:
    for l in open(summ):
        m = re.match(r"(miri|asan|memcheck|debug): vsan .*decodes_ok=(\d+) decodes_err=(\d+) operations=(\d+) mismatches=(\d+)", l)
        if m:
            t = tot.setdefault(m.group(1), {"shards": 0, "decodes_ok": 0, "decodes_err": 0, "operations": 0, "mismatches": 0})
            t["shards"] += 1
            t["decodes_ok"] += int(m.group(2)); t["decodes_err"] += int(m.group(3)); t["operations"] += int(m.group(4)); t["mismatches"] += int(m.group(5))
        elif l.startswith("INCONCLUSIVE"):
            inconc.append(l.strip())
except FileNotFoundError:
    pass
ev["coverage"]["sanitizers"] = {"tools": tot, "reports": rc, "inconclusive": inconc,
    "miri_flags": "-Zmiri-tree-borrows -Zmiri-permissive-provenance -Zmiri-disable-isolation",
    "note": "operations executed by the vsan workload under each tool; a report of any tool fails the run"}
ev["coverage"]["evaluations"] += sum(t["operations"] for t in tot.values())
if rc:
    ev["violations"] = ev.get("violations", 0) + 1
json.dump(ev, open(path, "w"), indent=1)
print(f"{ev['property_id']} sanitizers: " + ", ".join(f"{k}: {v['operations']} operations in {v['shards']} shards" for k, v in tot.items()) + f"; reports={rc}; inconclusive={len(inconc)}")
PY
[ $rc_all -eq 0 ] && rm -rf "$W"
exit $rc_all
